// C12 / C05 / C15: replays TLC-generated behaviours of spec/Lifecycle.tla on real covfie fields.
// After EVERY step the projected abstract state of every slot (extents, storage size, the value at every lattice
// coordinate) is compared with what the specification prescribes, together with the number of live storage blocks
// observed through replaced global operator new[] / delete[].  Run under ASan+LSan (use after free, double free,
// leak) and in NDEBUG builds.
#include <atomic>
#include <cstdlib>
#include <new>
#include <sstream>
#include <variant>
#include <covfie/core/backend/primitive/array.hpp>
#include <covfie/core/backend/transformer/hilbert.hpp>
#include <covfie/core/backend/transformer/morton.hpp>
#include <covfie/core/backend/transformer/strided.hpp>
#include <covfie/core/field.hpp>
#include "common.hpp"

static std::atomic<long> g_live_arrays{0};
static long g_base_arrays = 0;   // array allocations that are not covfie's (e.g. the ifstream buffer), sampled before each behaviour
#ifndef VF_NO_INTERPOSE   // (the valgrind configuration uses valgrind's own allocation tracking instead)
void * operator new[](std::size_t n) { void * p = std::malloc(n ? n : 1); if (!p) throw std::bad_alloc(); ++g_live_arrays; return p; }
void operator delete[](void * p) noexcept { if (p) { --g_live_arrays; std::free(p); } }
void operator delete[](void * p, std::size_t) noexcept { if (p) { --g_live_arrays; std::free(p); } }
#endif

using namespace vf;
namespace cb = covfie::backend;
namespace cv = covfie::vector;

#ifndef VF_STORE
#define VF_STORE float
#endif
using A = cb::array<cv::vector_d<VF_STORE, 1>>;
template <std::size_t N> using In = cv::vector_d<std::size_t, N>;
using S1 = covfie::field<cb::strided<In<1>, A>>;
using S2 = covfie::field<cb::strided<In<2>, A>>;
using M1 = covfie::field<cb::morton<In<1>, A, true>>;
using M2 = covfie::field<cb::morton<In<2>, A, true>>;
using P1 = covfie::field<cb::morton<In<1>, A, false>>;
using P2 = covfie::field<cb::morton<In<2>, A, false>>;
using H2 = covfie::field<cb::hilbert<In<2>, A>>;
using S3 = covfie::field<cb::strided<In<3>, A>>;
using S4 = covfie::field<cb::strided<In<4>, A>>;
using M3 = covfie::field<cb::morton<In<3>, A, true>>;
using M4 = covfie::field<cb::morton<In<4>, A, true>>;
using P3 = covfie::field<cb::morton<In<3>, A, false>>;
using P4 = covfie::field<cb::morton<In<4>, A, false>>;
using slot_t = std::variant<std::monostate, S1, S2, M1, M2, P1, P2, H2, S3, S4, M3, M4, P3, P4>;

template <typename F> struct info;
template <> struct info<S1> { static constexpr std::size_t N = 1; static constexpr const char * ty = "strided"; };
template <> struct info<S2> { static constexpr std::size_t N = 2; static constexpr const char * ty = "strided"; };
template <> struct info<M1> { static constexpr std::size_t N = 1; static constexpr const char * ty = "morton"; };
template <> struct info<M2> { static constexpr std::size_t N = 2; static constexpr const char * ty = "morton"; };
template <> struct info<P1> { static constexpr std::size_t N = 1; static constexpr const char * ty = "morton_portable"; };
template <> struct info<P2> { static constexpr std::size_t N = 2; static constexpr const char * ty = "morton_portable"; };
template <> struct info<H2> { static constexpr std::size_t N = 2; static constexpr const char * ty = "hilbert"; };
template <> struct info<S3> { static constexpr std::size_t N = 3; static constexpr const char * ty = "strided"; };
template <> struct info<S4> { static constexpr std::size_t N = 4; static constexpr const char * ty = "strided"; };
template <> struct info<M3> { static constexpr std::size_t N = 3; static constexpr const char * ty = "morton"; };
template <> struct info<M4> { static constexpr std::size_t N = 4; static constexpr const char * ty = "morton"; };
template <> struct info<P3> { static constexpr std::size_t N = 3; static constexpr const char * ty = "morton_portable"; };
template <> struct info<P4> { static constexpr std::size_t N = 4; static constexpr const char * ty = "morton_portable"; };

// long-lived views (spec: `view'): kept across operations for as long as the specification says they stay valid
using view_slot_t = std::variant<std::monostate, S1::view_t, S2::view_t, M1::view_t, M2::view_t, P1::view_t, P2::view_t, H2::view_t,
                                 S3::view_t, S4::view_t, M3::view_t, M4::view_t, P3::view_t, P4::view_t>;
static std::vector<slot_t> g_slots;
static std::vector<view_slot_t> g_views;
static std::string g_stream;       // last dump
static std::size_t g_stream_type;  // variant index of the dumped field

template <typename Fn>
static bool with_type(const std::string & ty, std::size_t n, Fn fn) {
    bool done = false;
    auto tryone = [&](auto tag) {
        using F = typename decltype(tag)::type;
        if (!done && ty == info<F>::ty && n == info<F>::N) { fn(tag); done = true; }
    };
    tryone(std::type_identity<S1>{}); tryone(std::type_identity<S2>{}); tryone(std::type_identity<M1>{}); tryone(std::type_identity<M2>{});
    tryone(std::type_identity<P1>{}); tryone(std::type_identity<P2>{}); tryone(std::type_identity<H2>{});
    tryone(std::type_identity<S3>{}); tryone(std::type_identity<S4>{}); tryone(std::type_identity<M3>{}); tryone(std::type_identity<M4>{});
    tryone(std::type_identity<P3>{}); tryone(std::type_identity<P4>{});
    return done;
}

template <typename F>
static double read_at(const F & f, const std::vector<std::size_t> & c) {
    typename F::view_t v(f);
    covfie::array::array<std::size_t, info<F>::N> cc;
    for (std::size_t k = 0; k < info<F>::N; ++k) cc[k] = c[k];
    return (double)v.at(cc)[0];
}

static void do_step(const json & st, const json & ctx) {
    const std::string op = st["op"];
    const json & a = st["args"];
    auto S = [&](const char * k) -> slot_t & { return g_slots.at(a[k].get<std::size_t>() - 1); };
    if (op == "Construct") {
        auto ext = a["ext"].get<std::vector<std::size_t>>();
        with_type(a["ty"], ext.size(), [&](auto tag) {
            using F = typename decltype(tag)::type;
            using B = typename F::backend_t;
            typename B::configuration_t cfg;
            for (std::size_t k = 0; k < ext.size(); ++k) cfg[k] = ext[k];
            S("s").template emplace<F>(covfie::make_parameter_pack(std::move(cfg), typename A::configuration_t{a["size"].get<std::size_t>()}));
        });
    } else if (op == "Write") {
        auto c = a["c"].get<std::vector<std::size_t>>();
        std::visit([&](auto & f) {
            using F = std::decay_t<decltype(f)>;
            if constexpr (!std::is_same_v<F, std::monostate>) {
                typename F::view_t v(f);
                covfie::array::array<std::size_t, info<F>::N> cc;
                for (std::size_t k = 0; k < info<F>::N; ++k) cc[k] = c[k];
                v.at(cc)[0] = (VF_STORE)a["v"].get<long>();
            }
        }, S("s"));
    } else if (op == "CopyCtor" || op == "MoveCtor") {
        slot_t & d = S("d");
        std::visit([&](auto & f) {
            using F = std::decay_t<decltype(f)>;
            if constexpr (!std::is_same_v<F, std::monostate>) {
                if (op == "CopyCtor") d.template emplace<F>(f); else d.template emplace<F>(std::move(f));
            }
        }, S("s"));
    } else if (op == "Adopt") {
        // a field built from the existing storage object of another field: named const, named non-const, or given away
        slot_t & d = S("d");
        const std::string how = a["how"];
        std::visit([&](auto & f) {
            using F = std::decay_t<decltype(f)>;
            if constexpr (!std::is_same_v<F, std::monostate>) {
                using OD = typename F::backend_t::owning_data_t;
                if (how == "rvalue") { OD & o = const_cast<OD &>(f.backend()); d.template emplace<F>(covfie::make_parameter_pack(std::move(o))); }
                else if constexpr (!std::is_same_v<F, H2>) {
                    if (how == "const") { const OD & o = f.backend(); d.template emplace<F>(covfie::make_parameter_pack(o)); }
                    else { OD & o = const_cast<OD &>(f.backend()); d.template emplace<F>(covfie::make_parameter_pack(o)); }
                } else mismatch("replayer/adopt-not-offered", ctx);
            }
        }, S("s"));
    } else if (op == "CopyAssign" || op == "MoveAssign") {
        slot_t & d = S("d");
        std::visit([&](auto & f) {
            using F = std::decay_t<decltype(f)>;
            if constexpr (!std::is_same_v<F, std::monostate>) {
                F & target = std::get<F>(d);          // same static type, as C++ requires
                F * volatile src = &f;                // defeat self-assignment diagnostics; aliasing is the point
                if (op == "CopyAssign") target = *src; else target = std::move(*src);
            }
        }, S("s"));
    } else if (op == "DefaultConstruct") {
        with_type(a["ty"], a["n"].get<std::size_t>(), [&](auto tag) { using F = typename decltype(tag)::type; S("s").template emplace<F>(); });
    } else if (op == "Convert" || op == "ConvertMove") {
        slot_t & d = S("d");
        std::visit([&](auto & f) {
            using F = std::decay_t<decltype(f)>;
            if constexpr (!std::is_same_v<F, std::monostate>) {
                bool ok = with_type(a["ty"], info<F>::N, [&](auto tag) {
                    using G = typename decltype(tag)::type;
                    if constexpr (info<G>::N == info<F>::N && !std::is_same_v<F, G>) {
                        if (op == "Convert") d.template emplace<G>(f); else d.template emplace<G>(std::move(f));   // field(field<other> &&)
                    }
                });
                if (!ok) mismatch("replayer/unknown-type", ctx);
            }
        }, S("s"));
    } else if (op == "Dump") {
        std::visit([&](auto & f) {
            using F = std::decay_t<decltype(f)>;
            if constexpr (!std::is_same_v<F, std::monostate>) { std::ostringstream os; f.dump(os); g_stream = os.str(); }
        }, S("s"));
        g_stream_type = S("s").index();
        if (st.contains("dumped")) {
            // the payload of the dump, cell by cell (padding cells included), against the specification's storage block
            std::size_t n = 0;
            std::visit([&](auto & f) { using F = std::decay_t<decltype(f)>; if constexpr (!std::is_same_v<F, std::monostate>) n = info<F>::N; }, S("s"));
            const std::size_t off = 8 + 8 + 8 * n + 8 + 4 + 8, cells = st["dumped"].size();
            ++g_checks;
            if (g_stream.size() != off + cells * sizeof(VF_STORE) + 3 * 8) mismatch("lifecycle/dump-length", {{"ctx", ctx}, {"bytes", g_stream.size()}, {"cells", cells}});
            else for (std::size_t i = 0; i < cells; ++i) {
                VF_STORE x; std::memcpy(&x, g_stream.data() + off + i * sizeof(VF_STORE), sizeof x);
                json y = ctx; y["storage_cell"] = i;
                expect_eq("lifecycle/dump-cell", (double)x, (double)st["dumped"][i].get<long>(), y);
            }
        }
    } else if (op == "Load") {
        slot_t & d = S("d");
        std::istringstream is(g_stream);
        auto tryload = [&](auto tag, std::size_t idx) { using F = typename decltype(tag)::type; if (g_stream_type == idx) d.template emplace<F>(is); };
        tryload(std::type_identity<S1>{}, 1); tryload(std::type_identity<S2>{}, 2); tryload(std::type_identity<M1>{}, 3); tryload(std::type_identity<M2>{}, 4);
        tryload(std::type_identity<P1>{}, 5); tryload(std::type_identity<P2>{}, 6); tryload(std::type_identity<H2>{}, 7);
        tryload(std::type_identity<S3>{}, 8); tryload(std::type_identity<S4>{}, 9); tryload(std::type_identity<M3>{}, 10); tryload(std::type_identity<M4>{}, 11);
        tryload(std::type_identity<P3>{}, 12); tryload(std::type_identity<P4>{}, 13);
    } else if (op == "Destroy") {
        S("s").template emplace<std::monostate>();
    } else if (op == "MakeView") {
        view_slot_t & vs = g_views.at(a["view"].get<std::size_t>() - 1);
        std::visit([&](auto & f) {
            using F = std::decay_t<decltype(f)>;
            if constexpr (!std::is_same_v<F, std::monostate>) {
                typename F::view_t tmp(f);                      // the view object is itself a value: keep a COPY of it,
                vs.template emplace<typename F::view_t>(tmp);   // the original goes out of scope here
            }
        }, S("s"));
    } else if (op == "DropView") {
        g_views.at(a["view"].get<std::size_t>() - 1).template emplace<std::monostate>();
    } else if (op == "WriteView") {
        auto c = a["c"].get<std::vector<std::size_t>>();
        std::visit([&](auto & v) {
            using V = std::decay_t<decltype(v)>;
            if constexpr (!std::is_same_v<V, std::monostate>) {
                using F = typename V::field_t;
                covfie::array::array<std::size_t, info<F>::N> cc;
                for (std::size_t k = 0; k < info<F>::N; ++k) cc[k] = c[k];
                v.at(cc)[0] = (VF_STORE)a["val"].get<long>();
            } else mismatch("replayer/write-through-empty-view", ctx);
        }, g_views.at(a["view"].get<std::size_t>() - 1));
    } else {
        mismatch("replayer/unknown-op", {{"op", op}});
    }
}

static void compare(const json & after, const json & ctx, const std::string & op) {
    bool unspec = false;
    for (std::size_t s = 0; s < g_slots.size(); ++s) {
        const json & w = after["slots"][s];
        const std::string st = w["st"];
        json x = ctx; x["slot"] = s + 1; x["after_op"] = op;
        if (st == "unspec" || st == "moved") unspec = unspec || st == "unspec";
        if (st == "dead") { ++g_checks; if (g_slots[s].index() != 0) mismatch("lifecycle/slot-not-dead", x); continue; }
        if (st != "live") continue;          // moved-from / unspecified: only destructible and assignable
        std::visit([&](auto & f) {
            using F = std::decay_t<decltype(f)>;
            if constexpr (std::is_same_v<F, std::monostate>) { mismatch("lifecycle/slot-empty", x); }
            else {
                expect_eq("lifecycle/type/" + op, std::string(info<F>::ty), w["ty"].get<std::string>(), x);
                auto cfg = f.backend().get_configuration();
                for (std::size_t k = 0; k < info<F>::N; ++k) expect_eq("lifecycle/extent/" + op, (std::size_t)cfg[k], w["ext"][k].get<std::size_t>(), x);
                expect_eq("lifecycle/storage-size/" + op, (std::size_t)f.backend().get_backend().get_configuration()[0], w["size"].get<std::size_t>(), x);
                for (auto & cv_ : w["vals"]) {
                    json y = x; y["c"] = cv_["c"];
                    expect_eq("lifecycle/value/" + op, read_at(f, cv_["c"].get<std::vector<std::size_t>>()), (double)cv_["v"].get<long>(), y);
                }
            }
        }, g_slots[s]);
    }
    // long-lived views: one the specification declares dead is dropped (never used again); one it keeps valid must read, at
    // every coordinate, exactly what the specification says the storage it points to holds now
    if (after.contains("views")) for (std::size_t v = 0; v < after["views"].size() && v < g_views.size(); ++v) {
        const json & w = after["views"][v];
        json x = ctx; x["view"] = v + 1; x["after_op"] = op;
        if (w["st"] != "valid") { g_views[v].template emplace<std::monostate>(); continue; }
        std::visit([&](auto & vw) {
            using V = std::decay_t<decltype(vw)>;
            if constexpr (std::is_same_v<V, std::monostate>) { mismatch("lifecycle/view-missing", x); }
            else {
                using F = typename V::field_t;
                expect_eq("lifecycle/view-type/" + op, std::string(info<F>::ty), w["ty"].get<std::string>(), x);
                for (auto & cv_ : w["vals"]) {
                    json y = x; y["c"] = cv_["c"];
                    auto c = cv_["c"].get<std::vector<std::size_t>>();
                    covfie::array::array<std::size_t, info<F>::N> cc;
                    for (std::size_t k = 0; k < info<F>::N; ++k) cc[k] = c[k];
                    expect_eq("lifecycle/view-value/" + op, (double)vw.at(cc)[0], (double)cv_["v"].get<long>(), y);
                }
            }
        }, g_views[v]);
    }
    static const bool count_blocks = std::getenv("VF_NO_BLOCKCOUNT") == nullptr;   // valgrind replaces the allocation functions itself
    if (!unspec && count_blocks) expect_eq("lifecycle/live-storage-blocks/" + op, (long)g_live_arrays.load() - g_base_arrays, after["blocks"].get<long>(), ctx);
}

// ------------------------------------------------------------------ code -> spec: a random driver that logs what it did
struct shadow { std::string st = "dead", ty = "none"; std::size_t n = 0; };   // the driver's own bookkeeping of what it has done

struct vshadow { bool valid = false; std::size_t owner = 0; std::vector<std::size_t> ext; };   // ... and of its long-lived views

static json project_views(const std::vector<vshadow> & vs) {
    json views = json::array();
    for (std::size_t v = 0; v < g_views.size(); ++v) {
        json o = {{"st", vs[v].valid ? "valid" : "none"}, {"vals", json::array()}};
        if (vs[v].valid) std::visit([&](auto & vw) {
            using V = std::decay_t<decltype(vw)>;
            if constexpr (!std::is_same_v<V, std::monostate>) {
                using F = typename V::field_t;
                std::size_t prod = 1; for (auto x : vs[v].ext) prod *= x;
                for (std::size_t cell = 0; cell < prod; ++cell) {
                    std::vector<std::size_t> c(info<F>::N); std::size_t r = cell;
                    for (std::size_t k = info<F>::N; k-- > 0;) { c[k] = r % vs[v].ext[k]; r /= vs[v].ext[k]; }
                    covfie::array::array<std::size_t, info<F>::N> cc;
                    for (std::size_t k = 0; k < info<F>::N; ++k) cc[k] = c[k];
                    o["vals"].push_back({{"c", c}, {"v", (long)vw.at(cc)[0]}});
                }
            }
        }, g_views[v]);
        views.push_back(o);
    }
    return views;
}

static json project(const std::vector<shadow> & sh) {
    json slots = json::array();
    for (std::size_t s = 0; s < g_slots.size(); ++s) {
        json o = {{"st", sh[s].st}, {"ty", "none"}, {"ext", json::array()}, {"size", 0}, {"vals", json::array()}};
        if (sh[s].st == "live") {
            std::visit([&](auto & f) {
                using F = std::decay_t<decltype(f)>;
                if constexpr (!std::is_same_v<F, std::monostate>) {
                    o["ty"] = info<F>::ty;
                    auto cfg = f.backend().get_configuration();
                    std::vector<std::size_t> ext; std::size_t prod = 1;
                    for (std::size_t k = 0; k < info<F>::N; ++k) { ext.push_back(cfg[k]); prod *= cfg[k]; }
                    o["ext"] = ext;
                    o["size"] = (std::size_t)f.backend().get_backend().get_configuration()[0];
                    json vals = json::array();
                    for (std::size_t cell = 0; cell < prod; ++cell) {
                        std::vector<std::size_t> c(info<F>::N); std::size_t r = cell;
                        for (std::size_t k = info<F>::N; k-- > 0;) { c[k] = r % ext[k]; r /= ext[k]; }
                        vals.push_back({{"c", c}, {"v", (long)read_at(f, c)}});
                    }
                    o["vals"] = vals;
                }
            }, g_slots[s]);
        }
        slots.push_back(o);
    }
    return {{"slots", slots}};
}

// focus: every field is a 1-D row-major field of 2 or 3 cells, so that any two live fields can be assigned to one another and
// long chains of copy / move construction and assignment between fields of DIFFERENT sizes are dense (the histories in which
// stale sizes, reused buffers and capacities would matter)
static void drive(uint64_t seed, long execs, long nops, const char * path, bool focus) {
    rng r(seed);
    std::ofstream out(path);
    const char * layouts[] = {"strided", "morton", "morton_portable", "hilbert"};
    long events = 0;
    for (long e = 0; e < execs; ++e) {
        out << json({{"e", "Reset"}}).dump() << "\n"; ++events;
        g_views.clear(); g_views.resize(2);
        g_slots.clear(); g_slots.resize(3); g_stream.clear();
        std::vector<shadow> sh(3);
        std::vector<vshadow> vs(2);
        // the driver's own rule for which views are still usable (independent of the specification's KeepViews; the two are
        // compared by Trace_Lifecycle): a view follows its storage when the owner is moved from and dies when the owner is the
        // target of an assignment, the source of a moving conversion, or destroyed
        auto kill = [&](std::size_t owner) { for (std::size_t v = 0; v < vs.size(); ++v) if (vs[v].valid && vs[v].owner == owner) { vs[v].valid = false; g_views[v].template emplace<std::monostate>(); } };
        auto follow = [&](std::size_t from, std::size_t to) { for (auto & x : vs) if (x.valid && x.owner == from) x.owner = to; };
        bool have_stream = false; std::string stream_ty; std::size_t stream_n = 0;
        for (long k = 0; k < nops; ++k) {
            // pick an enabled operation
            for (int attempt = 0; attempt < 200; ++attempt) {
                std::size_t s = r.below(3), d = r.below(3);
                int op = (int)r.below(18);
                std::size_t vi = r.below(2);
                json ev;
                auto live = [&](std::size_t i) { return sh[i].st == "live"; };
                auto assignable = [&](std::size_t i) { return sh[i].st != "dead"; };
                if (op == 0 && sh[s].st == "dead") {
                    std::size_t n = focus ? 1 : 1 + r.below(3);
                    std::vector<std::size_t> ext(n); std::size_t prod = 1; for (auto & x : ext) { x = focus ? 2 + r.below(2) : 1 + r.below(n == 1 ? 5 : 3); prod *= x; }
                    ev = {{"e", "Construct"}, {"args", {{"s", s + 1}, {"ty", "strided"}, {"ext", ext}, {"size", prod}}}};
                    do_step({{"op", "Construct"}, {"args", ev["args"]}}, {});
                    sh[s] = {"live", "strided", n};
                } else if (op == 1 && sh[s].st == "dead") {
                    std::size_t n = focus ? 1 : 1 + r.below(3); const char * ty = layouts[focus ? 0 : r.below(3)];
                    ev = {{"e", "DefaultConstruct"}, {"args", {{"s", s + 1}, {"ty", ty}, {"n", n}}}};
                    do_step({{"op", "DefaultConstruct"}, {"args", ev["args"]}}, {});
                    sh[s] = {"unspec", ty, n};
                } else if ((op == 2 || op == 3) && live(s)) {
                    json pr = project(sh)["slots"][s];
                    auto & vals = pr["vals"];
                    if (vals.empty()) continue;
                    auto c = vals[r.below(vals.size())]["c"];
                    ev = {{"e", "Write"}, {"args", {{"s", s + 1}, {"c", c}, {"v", 1 + r.below(9)}}}};
                    do_step({{"op", "Write"}, {"args", ev["args"]}}, {});
                } else if ((op == 4 || op == 5) && sh[d].st == "dead" && live(s) && d != s) {
                    const char * nm = op == 4 ? "CopyCtor" : "MoveCtor";
                    ev = {{"e", nm}, {"args", {{"d", d + 1}, {"s", s + 1}}}};
                    do_step({{"op", nm}, {"args", ev["args"]}}, {});
                    sh[d] = sh[s]; if (op == 5) { sh[s].st = "moved"; follow(s, d); }
                } else if ((op == 16 || op == 17) && sh[d].st == "dead" && live(s) && d != s) {
                    const char * hows[] = {"const", "lvalue", "rvalue"};
                    const char * how = hows[r.below(3)];
                    if (sh[s].ty == "hilbert" && std::string(how) != "rvalue") continue;
                    ev = {{"e", "Adopt"}, {"args", {{"d", d + 1}, {"s", s + 1}, {"how", how}}}};
                    do_step({{"op", "Adopt"}, {"args", ev["args"]}}, {});
                    sh[d] = sh[s]; if (std::string(how) == "rvalue") { sh[s].st = "moved"; kill(s); }   // which block survives is not promised
                } else if ((op == 6 || op == 7) && assignable(d) && live(s) && sh[d].ty == sh[s].ty && sh[d].n == sh[s].n) {
                    const char * nm = op == 6 ? "CopyAssign" : "MoveAssign";
                    ev = {{"e", nm}, {"args", {{"d", d + 1}, {"s", s + 1}}}};
                    do_step({{"op", nm}, {"args", ev["args"]}}, {});
                    kill(d);
                    if (d != s) { sh[d] = sh[s]; if (op == 7) { sh[s].st = "moved"; follow(s, d); } }
                    else if (op == 7) sh[s].st = "unspec";
                } else if ((op == 8 || op == 9) && !focus && sh[d].st == "dead" && live(s) && d != s) {
                    const char * ty2 = layouts[r.below(4)];
                    if (sh[s].ty == ty2 || (std::string(ty2) == "hilbert" && sh[s].n != 2)) continue;
                    const char * nm = op == 8 ? "Convert" : "ConvertMove";
                    ev = {{"e", nm}, {"args", {{"d", d + 1}, {"s", s + 1}, {"ty", ty2}}}};
                    do_step({{"op", nm}, {"args", ev["args"]}}, {});
                    sh[d] = {"live", ty2, sh[s].n}; if (op == 9) { sh[s].st = "unspec"; kill(s); }
                } else if (op == 10 && live(s)) {
                    if (r.below(2)) {
                        ev = {{"e", "Dump"}, {"args", {{"s", s + 1}}}};
                        do_step({{"op", "Dump"}, {"args", ev["args"]}}, {});
                        have_stream = true; stream_ty = sh[s].ty; stream_n = sh[s].n;
                    } else if (have_stream && sh[d].st == "dead") {
                        ev = {{"e", "Load"}, {"args", {{"d", d + 1}}}};
                        do_step({{"op", "Load"}, {"args", ev["args"]}}, {});
                        sh[d] = {"live", stream_ty, stream_n};
                    } else continue;
                } else if (op == 11 && sh[s].st != "dead" && r.below(2)) {
                    ev = {{"e", "Destroy"}, {"args", {{"s", s + 1}}}};
                    do_step({{"op", "Destroy"}, {"args", ev["args"]}}, {});
                    sh[s] = shadow{};
                    kill(s);
                } else if (op == 12 && live(s) && !vs[vi].valid) {
                    ev = {{"e", "MakeView"}, {"args", {{"view", vi + 1}, {"s", s + 1}}}};
                    do_step({{"op", "MakeView"}, {"args", ev["args"]}}, {});
                    vs[vi].valid = true; vs[vi].owner = s; vs[vi].ext = project(sh)["slots"][s]["ext"].get<std::vector<std::size_t>>();
                } else if ((op == 13 || op == 14) && vs[vi].valid) {
                    std::size_t prod = 1; for (auto x : vs[vi].ext) prod *= x;
                    if (prod == 0) continue;
                    std::size_t cell = r.below(prod); std::vector<std::size_t> c(vs[vi].ext.size());
                    for (std::size_t k = c.size(); k-- > 0;) { c[k] = cell % vs[vi].ext[k]; cell /= vs[vi].ext[k]; }
                    ev = {{"e", "WriteView"}, {"args", {{"view", vi + 1}, {"c", c}, {"val", 1 + r.below(9)}}}};
                    do_step({{"op", "WriteView"}, {"args", ev["args"]}}, {});
                } else if (op == 15 && vs[vi].valid && r.below(3) == 0) {
                    ev = {{"e", "DropView"}, {"args", {{"view", vi + 1}}}};
                    do_step({{"op", "DropView"}, {"args", ev["args"]}}, {});
                    vs[vi].valid = false;
                } else continue;
                ev["after"] = project(sh);
                ev["after"]["views"] = project_views(vs);
                out << ev.dump() << "\n"; ++events;
                break;
            }
        }
        g_views.clear();
        g_slots.clear();
    }
    g_cases = execs;
    summary({{"events", events}});
}

int main(int argc, char ** argv) {
    install_terminate();
    std::string mode = argv[1];
    if (mode == "drive") { drive(std::strtoull(argv[2], nullptr, 10), std::atol(argv[3]), std::atol(argv[4]), argv[5], argc > 6 && std::string(argv[6]) == "focus"); return 0; }
    if (mode == "replay") {
        std::ifstream in(argv[2]);
        std::string line;
        long steps = 0, stride = argc > 3 ? std::atol(argv[3]) : 1, offset = argc > 4 ? std::atol(argv[4]) : 0, ln = 0;
        while (std::getline(in, line)) {
            if (line.empty()) continue;
            if ((ln++ % stride) != offset) continue;
            json beh = json::parse(line);
            ++g_cases;
            std::size_t nslots = beh[0]["after"]["slots"].size();
            g_slots.clear(); g_slots.resize(nslots);
            g_views.clear(); g_views.resize(beh[0]["after"].contains("views") ? beh[0]["after"]["views"].size() : 0);
            g_base_arrays = g_live_arrays.load();
            g_stream.clear();
            json ops = json::array();
            for (auto & st : beh) ops.push_back({{"op", st["op"]}, {"args", st["args"]}});
            long k = 0;
            for (auto & st : beh) {
                json ctx = {{"history", ops}, {"step", ++k}};
                do_step(st, ctx);
                compare(st["after"], ctx, st["op"]);
                ++steps;
            }
            g_views.clear();
            g_slots.clear();
            if (std::getenv("VF_NO_BLOCKCOUNT") == nullptr) expect_eq("lifecycle/leak-at-end", (long)g_live_arrays.load() - g_base_arrays, 0L, {{"history", ops}});
        }
        summary({{"steps", steps}});
    }
    return 0;
}
