// C05: conversions between storage orders and between whole stacks, there and back.
//   replay <LayoutWR cases>   every extent vector enumerated by TLC (layout == "strided" lines carry the box)
//   trace <seed> <n> <out>    random larger extents -> events for Trace_Convert
#include <covfie/core/backend/primitive/array.hpp>
#include <covfie/core/backend/transformer/affine.hpp>
#include <covfie/core/backend/transformer/hilbert.hpp>
#include <covfie/core/backend/transformer/linear.hpp>
#include <covfie/core/backend/transformer/morton.hpp>
#include <covfie/core/backend/transformer/nearest_neighbour.hpp>
#include <covfie/core/backend/transformer/strided.hpp>
#include <covfie/core/field.hpp>
#include "common.hpp"
using namespace vf;
namespace cb = covfie::backend;
namespace cv = covfie::vector;

#ifndef VF_N
#define VF_N 2
#endif
constexpr std::size_t N = VF_N;
using In = cv::vector_d<std::size_t, N>;

struct L_strided { template <typename St> using type = cb::strided<In, St>; static constexpr const char * name = "strided"; static constexpr bool ok = true; };
struct L_morton { template <typename St> using type = cb::morton<In, St, true>; static constexpr const char * name = "morton"; static constexpr bool ok = true; };
struct L_mortonp { template <typename St> using type = cb::morton<In, St, false>; static constexpr const char * name = "morton_portable"; static constexpr bool ok = true; };
struct L_hilbert {
    template <typename St> using type = std::conditional_t<N == 2, cb::hilbert<cv::vector_d<std::size_t, 2>, St>, cb::strided<In, St>>;
    static constexpr const char * name = "hilbert"; static constexpr bool ok = (N == 2);
};
struct I_nn { template <typename B> using type = cb::nearest_neighbour<B, cv::vector_d<float, N>>; static constexpr const char * name = "nearest"; static constexpr bool lin = false; };
struct I_lin { template <typename B> using type = cb::linear<B, cv::vector_d<float, N>>; static constexpr const char * name = "linear"; static constexpr bool lin = true; };

using coord = std::vector<std::size_t>;
struct grid { coord ext; std::vector<coord> box; };

static grid make_grid(const coord & ext) {
    grid g; g.ext = ext;
    std::size_t prod = 1; for (auto e : ext) prod *= e;
    for (std::size_t cell = 0; cell < prod; ++cell) { coord c(N); std::size_t r = cell; for (std::size_t k = N; k-- > 0;) { c[k] = r % ext[k]; r /= ext[k]; } g.box.push_back(c); }
    return g;
}
static covfie::array::array<std::size_t, N> arr(const coord & c) { covfie::array::array<std::size_t, N> a; for (std::size_t k = 0; k < N; ++k) a[k] = c[k]; return a; }

template <typename S, std::size_t M>
static covfie::field<cb::strided<In, cb::array<cv::vector_d<S, M>>>> make_rs(const grid & g) {
    using A = cb::array<cv::vector_d<S, M>>;
    using RS = cb::strided<In, A>;
    typename RS::configuration_t cfg; std::size_t prod = 1;
    for (std::size_t k = 0; k < N; ++k) { cfg[k] = g.ext[k]; prod *= g.ext[k]; }
    covfie::field<RS> rs(covfie::make_parameter_pack(std::move(cfg), typename A::configuration_t{prod}));
    typename covfie::field<RS>::view_t v(rs);
    long k = 0;
    for (auto & c : g.box) { for (std::size_t q = 0; q < M; ++q) v.at(arr(c))[q] = (S)(k * 4 + (long)q + 1); ++k; }
    return rs;
}

template <typename F, std::size_t M>
static long count_mismatch(const F & f, const grid & g) {
    typename F::view_t v(f);
    long bad = 0, k = 0;
    for (auto & c : g.box) { for (std::size_t q = 0; q < M; ++q) if ((double)v.at(arr(c))[q] != (double)(k * 4 + (long)q + 1)) ++bad; ++k; }
    return bad;
}
template <typename F>
static bool ext_equal(const F & f, const grid & g) { auto cfg = f.backend().get_configuration(); for (std::size_t k = 0; k < N; ++k) if (cfg[k] != g.ext[k]) return false; return true; }

struct pair_result { long bad12, bad_back, bad_src, bad_rs; bool cfg2, cfg_back; std::size_t size2, size_back; };

template <typename L1, typename L2, typename S, std::size_t M>
static pair_result run_pair(const grid & g) {
    using A = cb::array<cv::vector_d<S, M>>;
    using B1 = typename L1::template type<A>;
    using B2 = typename L2::template type<A>;
    auto rs = make_rs<S, M>(g);
    covfie::field<B1> f1(rs);            // (copy when L1 is row-major)
    covfie::field<B2> f2(f1);            // L1 -> L2
    covfie::field<B1> f3(f2);            // and back
    pair_result r;
    r.bad12 = count_mismatch<covfie::field<B2>, M>(f2, g);
    r.bad_back = count_mismatch<covfie::field<B1>, M>(f3, g);
    r.bad_src = count_mismatch<covfie::field<B1>, M>(f1, g);
    r.bad_rs = count_mismatch<decltype(rs), M>(rs, g);
    r.cfg2 = ext_equal(f2, g); r.cfg_back = ext_equal(f3, g);
    r.size2 = f2.backend().get_backend().get_configuration()[0];
    r.size_back = f3.backend().get_backend().get_configuration()[0];
    return r;
}

template <typename L1, typename L2, typename S, std::size_t M>
static void check_pair(const grid & g, std::size_t want_size1) {
    if constexpr (L1::ok && L2::ok && !std::is_same_v<L1, L2>) {
        const std::string tag = std::string(L1::name) + "->" + L2::name + "/N" + std::to_string(N) + "/" + (sizeof(S) == 4 ? "float" : "double") + std::to_string(M);
        json ctx = {{"ext", g.ext}, {"pair", tag}};
        auto r = run_pair<L1, L2, S, M>(g);
        expect_eq("convert/values/" + tag, r.bad12, 0L, ctx);
        expect_eq("convert/back-values/" + tag, r.bad_back, 0L, ctx);
        expect_eq("convert/source-changed/" + tag, r.bad_src + r.bad_rs, 0L, ctx);
        expect_eq("convert/configuration/" + tag, r.cfg2 && r.cfg_back, true, ctx);
        if (want_size1) expect_eq("convert/back-storage-size/" + tag, r.size_back, want_size1, ctx);
    }
}

// whole stacks: affine<I1<L1<array>>> -> affine<I2<L2<array>>>
template <typename I1, typename L1, typename I2, typename L2, typename S>
static void check_stack(const grid & g) {
    if constexpr (L1::ok && L2::ok) {
        using A = cb::array<cv::vector_d<S, 2>>;
        using B1 = typename L1::template type<A>;
        using B2 = typename L2::template type<A>;
        using F1 = cb::affine<typename I1::template type<B1>>;
        using F2 = cb::affine<typename I2::template type<B2>>;
        const std::string tag = std::string("affine<") + I1::name + "<" + L1::name + ">>->affine<" + I2::name + "<" + L2::name + ">>/N" + std::to_string(N) + (sizeof(S) == 4 ? "/float" : "/double");
        json ctx = {{"ext", g.ext}, {"stacks", tag}};
        auto rs = make_rs<S, 2>(g);
        covfie::field<B1> b1(rs);
        // translation by t_k = k+1: lattice coordinate c is looked up at x = c - t
        covfie::array::array<covfie::array::array<float, N + 1>, N> m;
        for (std::size_t i = 0; i < N; ++i) for (std::size_t j = 0; j <= N; ++j) m[i][j] = (i == j) ? 1.f : (j == N ? (float)(i + 1) : 0.f);
        typename F1::configuration_t aff{covfie::algebra::matrix<N, N + 1, float>(m)};
        covfie::field<F1> f1(covfie::make_parameter_pack(typename F1::configuration_t(aff), std::monostate{}, typename B1::owning_data_t(b1.backend())));
        covfie::field<F2> f2(f1);
        // configuration of every layer
        bool same = true;
        auto c1 = f1.backend().get_configuration(), c2 = f2.backend().get_configuration();
        for (std::size_t i = 0; i < N; ++i) for (std::size_t j = 0; j <= N; ++j) if (c1(i, j) != c2(i, j) || c2(i, j) != m[i][j]) same = false;
        auto e2 = f2.backend().get_backend().get_backend().get_configuration();
        for (std::size_t k = 0; k < N; ++k) if (e2[k] != g.ext[k]) same = false;
        expect_eq("convert-stack/configuration/" + tag, same, true, ctx);
        auto lookup = [&](auto & fld, const coord & c, bool & usable) {
            covfie::array::array<float, N> x;
            for (std::size_t k = 0; k < N; ++k) x[k] = (float)c[k] - (float)(k + 1);
            usable = true;
            return typename std::decay_t<decltype(fld)>::view_t(fld).at(x);
        };
        long bad = 0, k = 0, looked = 0;
        for (auto & c : g.box) {
            bool interior = true;
            for (std::size_t d = 0; d < N; ++d) if (c[d] + 1 >= g.ext[d]) interior = false;   // linear needs x_k < extent-1
            bool u;
            if (!I2::lin || interior) { auto r = lookup(f2, c, u); ++looked; for (std::size_t q = 0; q < 2; ++q) if ((double)r[q] != (double)(k * 4 + (long)q + 1)) ++bad; }
            if (!I1::lin || interior) { auto r = lookup(f1, c, u); for (std::size_t q = 0; q < 2; ++q) if ((double)r[q] != (double)(k * 4 + (long)q + 1)) ++bad; }
            ++k;
        }
        expect_eq("convert-stack/values/" + tag, bad, 0L, ctx);
        g_checks += looked;
    }
}

// a LONG one-dimensional stack (beyond 2^22 cells: lattice coordinates no longer have spare mantissa bits in float) taken
// through affine<I1<strided>> -> affine<I2<L2>> -> affine<I1<strided>>; the lattice values of all three fields are compared
// at the ends of the axis and at random cells
#if VF_N == 1
template <typename I1, typename I2, typename L2>
static void check_stack_long(std::size_t n, rng & r) {
    {
        using A = cb::array<cv::vector_d<float, 1>>;
        using B1 = cb::strided<In, A>; using B2 = typename L2::template type<A>;
        using F1 = cb::affine<typename I1::template type<B1>>; using F2 = cb::affine<typename I2::template type<B2>>;
        const std::string tag = std::string("long/affine<") + I1::name + "<strided>>->affine<" + I2::name + "<" + L2::name + ">>->back";
        json ctx = {{"ext", {n}}, {"stacks", tag}};
        covfie::field<B1> rs(covfie::make_parameter_pack(typename B1::configuration_t{n}, typename A::configuration_t{n}));
        { typename covfie::field<B1>::view_t v(rs); for (std::size_t k = 0; k < n; ++k) v.at(k)[0] = (float)(k % 9973 + 1); }
        covfie::array::array<covfie::array::array<float, 2>, 1> m; m[0][0] = 1.f; m[0][1] = 1.f;
        typename F1::configuration_t aff{covfie::algebra::matrix<1, 2, float>(m)};
        covfie::field<F1> f1(covfie::make_parameter_pack(typename F1::configuration_t(aff), std::monostate{}, typename B1::owning_data_t(rs.backend())));
        covfie::field<F2> f2(f1);
        covfie::field<F1> f3(f2);
        ++g_checks;
        if (f2.backend().get_backend().get_backend().get_configuration()[0] != n || f3.backend().get_backend().get_backend().get_configuration()[0] != n) mismatch("convert-stack/configuration/" + tag, ctx);
        typename covfie::field<F1>::view_t v1(f1), v3(f3); typename covfie::field<F2>::view_t v2(f2);
        std::vector<std::size_t> cells;
        for (std::size_t k = 0; k < 300 && k < n; ++k) { cells.push_back(k); cells.push_back(n - 1 - k); }
        for (int q = 0; q < 4000; ++q) cells.push_back(r.below(n));
        long bad = 0; std::size_t first = 0;
        for (std::size_t c : cells) {
            if ((I1::lin || I2::lin) && c + 1 >= n) continue;
            const float x = (float)c - 1.f, want = (float)(c % 9973 + 1);
            ++g_checks;
            if (v1.at(x)[0] != want || v2.at(x)[0] != want || v3.at(x)[0] != want) { if (!bad++) first = c; }
        }
        if (bad) mismatch("convert-stack/values/" + tag, {{"ctx", ctx}, {"mismatching_cells", bad}, {"first_cell", first}});
    }
}
#endif

template <typename L1, typename S, std::size_t M>
static void all_targets(const grid & g, std::size_t size1) {
    check_pair<L1, L_strided, S, M>(g, size1); check_pair<L1, L_morton, S, M>(g, size1);
    check_pair<L1, L_mortonp, S, M>(g, size1); check_pair<L1, L_hilbert, S, M>(g, size1);
}

static void run_ext(const grid & g, const std::map<std::string, std::size_t> & sizes) {
    auto sz = [&](const char * n) { auto it = sizes.find(n); return it == sizes.end() ? (std::size_t)0 : it->second; };
    all_targets<L_strided, float, 1>(g, sz("strided")); all_targets<L_morton, float, 3>(g, sz("morton"));
    all_targets<L_mortonp, double, 2>(g, sz("morton_portable")); all_targets<L_hilbert, double, 1>(g, sz("hilbert"));
    all_targets<L_strided, double, 4>(g, sz("strided")); all_targets<L_morton, double, 1>(g, sz("morton"));
    check_stack<I_nn, L_strided, I_lin, L_morton, float>(g); check_stack<I_lin, L_strided, I_nn, L_mortonp, double>(g);
    check_stack<I_nn, L_morton, I_lin, L_strided, double>(g); check_stack<I_lin, L_mortonp, I_lin, L_morton, float>(g);
    check_stack<I_nn, L_strided, I_nn, L_hilbert, float>(g); check_stack<I_lin, L_hilbert, I_nn, L_strided, double>(g);
    check_stack<I_lin, L_morton, I_nn, L_hilbert, float>(g); check_stack<I_nn, L_hilbert, I_lin, L_mortonp, float>(g);
}

template <typename L1, typename L2>
static void trace_pair(const grid & g, std::ofstream & out, long & events) {
    if constexpr (L1::ok && L2::ok && !std::is_same_v<L1, L2>) {
        auto r = run_pair<L1, L2, float, 1>(g);
        out << json({{"e", "conv"}, {"from", L1::name}, {"to", L2::name}, {"ext", g.ext}, {"mismatch", r.bad12}, {"back_mismatch", r.bad_back},
                     {"source_mismatch", r.bad_src + r.bad_rs}, {"config_kept", r.cfg2 && r.cfg_back}, {"size", r.size2}, {"back_size", r.size_back}}).dump() << "\n";
        ++events;
    }
}

int main(int argc, char ** argv) {
    install_terminate();
    std::string mode = argv[1];
    if (mode == "replay") {
        std::map<coord, std::map<std::string, std::size_t>> sizes;
        std::vector<coord> exts;
        for (auto & c : read_ndjson(argv[2])) {
            auto e = c["ext"].get<coord>();
            if (e.size() != N) continue;
            sizes[e][c["layout"].get<std::string>()] = c["size"].get<std::size_t>();
            if (c["layout"] == "strided") exts.push_back(e);
        }
        for (auto & e : exts) { ++g_cases; run_ext(make_grid(e), sizes[e]); }
#if VF_N == 1
        {
            rng r(12345);
            ++g_cases; check_stack_long<I_nn, I_lin, L_morton>((1u << 22) + 64, r);
            ++g_cases; check_stack_long<I_lin, I_nn, L_mortonp>((1u << 22) + 61, r);
            ++g_cases; check_stack_long<I_nn, I_nn, L_morton>((1u << 23) + 3, r);
        }
#endif
        summary();
    } else if (mode == "trace") {
        rng r(std::strtoull(argv[2], nullptr, 10));
        long n = std::atol(argv[3]);
        std::ofstream out(argv[4]);
        long events = 0;
        const std::size_t mx = N == 1 ? 80000 : (N == 2 ? 90 : (N == 3 ? 24 : 20));   // (1-D: beyond 2^16 cells)
        for (long q = 0; q < n; ++q) {
            coord e(N); for (auto & x : e) x = 1 + r.below(mx);
            // every third case is long and thin: one axis beyond 2^8 (2-D) / 2^6 (3-D), so that every bit-spreading stage of the
            // curve layouts is used while the padded storage stays small
            if (N >= 2 && N <= 3 && q % 3 == 2) { for (auto & x : e) x = 1 + r.below(3); e[r.below(N)] = N == 2 ? 257 + r.below(444) : 65 + r.below(64); }
            grid g = make_grid(e);
            trace_pair<L_strided, L_morton>(g, out, events); trace_pair<L_morton, L_strided>(g, out, events);
            trace_pair<L_strided, L_mortonp>(g, out, events); trace_pair<L_mortonp, L_morton>(g, out, events);
            trace_pair<L_strided, L_hilbert>(g, out, events); trace_pair<L_hilbert, L_morton>(g, out, events);
            trace_pair<L_hilbert, L_strided>(g, out, events); trace_pair<L_morton, L_hilbert>(g, out, events);
        }
        g_cases = events;
        summary({{"events", events}});
    }
    return 0;
}
