// A field backend written in the harness against covfie's public field_backend concept.  It owns no storage:
// every lookup is recorded (count, last coordinate, out-of-bounds flag against a declared size for 1-D use)
// and answered with a value that is an injective function of the coordinate it was asked for.
// This is how the checks observe *which* backend coordinates a layer touches without any hook in /repo.
#pragma once
#include <cstdint>
#include <iostream>
#include <vector>
#include <covfie/core/concepts.hpp>
#include <covfie/core/parameter_pack.hpp>
#include <covfie/core/vector.hpp>

namespace vf {
struct probe_log {
    long queries = 0;
    long oob = 0;
    long double last[8] = {0, 0, 0, 0, 0, 0, 0, 0};
    bool record_all = false;
    std::vector<std::vector<long double>> all;
    void reset() { queries = 0; oob = 0; all.clear(); }
};
inline thread_local probe_log g_probe;

template <typename T>
inline T probe_value(const long double * c, std::size_t n, std::size_t q) {
    // injective on small integer / dyadic coordinates; component q gets a distinct offset
    long double v = 0;
    long double w = 1;
    for (std::size_t i = 0; i < n; ++i) { v += c[i] * w; w *= 32; }
    return static_cast<T>(v + 100000.0L * static_cast<long double>(q + 1));
}

template <typename _in_vd, typename _out_vd>
struct probe {
    using this_t = probe<_in_vd, _out_vd>;
    static constexpr bool is_initial = true;
    using contravariant_input_t = covfie::vector::array_vector_d<_in_vd>;
    using covariant_output_t = covfie::vector::array_vector_d<_out_vd>;
    struct configuration_t { uint64_t size; };   // declared number of cells (0 = unbounded)
    static constexpr uint32_t IO_MAGIC_HEADER = 0xAB01FFFE;

    struct owning_data_t {
        using parent_t = this_t;
        owning_data_t() : m_size(0) {}
        owning_data_t(const owning_data_t &) = default;
        owning_data_t(owning_data_t &&) = default;
        owning_data_t & operator=(const owning_data_t &) = default;
        owning_data_t & operator=(owning_data_t &&) = default;
        explicit owning_data_t(configuration_t c) : m_size(c.size) {}
        explicit owning_data_t(covfie::parameter_pack<configuration_t> && c) : m_size(c.x.size) {}
        explicit owning_data_t(covfie::parameter_pack<owning_data_t> && c) : m_size(c.x.m_size) {}
        configuration_t get_configuration() const { return {m_size}; }
        static owning_data_t read_binary(std::istream &) { return owning_data_t(); }
        static void write_binary(std::ostream &, const owning_data_t &) {}
        uint64_t m_size;
    };

    struct non_owning_data_t {
        using parent_t = this_t;
        non_owning_data_t(const owning_data_t & o) : m_size(o.m_size) {}
        typename covariant_output_t::vector_t at(typename contravariant_input_t::vector_t c) const {
            probe_log & L = g_probe;
            ++L.queries;
            for (std::size_t i = 0; i < contravariant_input_t::dimensions && i < 8; ++i) L.last[i] = static_cast<long double>(c[i]);
            if (m_size != 0 && contravariant_input_t::dimensions == 1 && !(static_cast<long double>(c[0]) < static_cast<long double>(m_size)) ) ++L.oob;
            if (L.record_all) {
                std::vector<long double> v;
                for (std::size_t i = 0; i < contravariant_input_t::dimensions; ++i) v.push_back(static_cast<long double>(c[i]));
                L.all.push_back(v);
            }
            typename covariant_output_t::vector_t r;
            for (std::size_t q = 0; q < covariant_output_t::dimensions; ++q)
                r[q] = probe_value<typename covariant_output_t::scalar_t>(L.last, contravariant_input_t::dimensions, q);
            return r;
        }
        uint64_t m_size;
    };
};
}
