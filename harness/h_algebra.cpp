// C09: covfie::algebra and the affine layer on exact (small-integer) operands.
#include <utility>
#include <covfie/core/algebra/affine.hpp>
#include <covfie/core/backend/primitive/identity.hpp>
#include <covfie/core/backend/transformer/affine.hpp>
#include <covfie/core/field.hpp>
#include <atomic>
#include <cmath>
#include <map>
#include <thread>
#include "common.hpp"
using namespace vf;
namespace ca = covfie::algebra;
namespace cb = covfie::backend;
namespace cv = covfie::vector;
using imat = std::vector<std::vector<long>>;
using ivec = std::vector<long>;

template <typename T> static const char * tname();
template <> const char * tname<float>() { return "float"; }
template <> const char * tname<double>() { return "double"; }

template <std::size_t N, typename T>
static ca::affine<N, T> mk(const imat & m) {
    covfie::array::array<covfie::array::array<T, N + 1>, N> a;
    for (std::size_t i = 0; i < N; ++i) for (std::size_t j = 0; j < N + 1; ++j) a[i][j] = (T)m[i][j];
    return ca::affine<N, T>(ca::matrix<N, N + 1, T>(a));
}
template <std::size_t N, typename T>
static ca::vector<N, T> mkv(const ivec & v) { ca::vector<N, T> r; for (std::size_t i = 0; i < N; ++i) r(i) = (T)v[i]; return r; }
template <std::size_t N, typename T>
static imat out(const ca::affine<N, T> & a) { imat m(N, ivec(N + 1)); for (std::size_t i = 0; i < N; ++i) for (std::size_t j = 0; j < N + 1; ++j) { T x = a(i, j); m[i][j] = (long)x; if ((T)m[i][j] != x) m[i][j] = 999999999; } return m; }
template <std::size_t N, typename T>
static ivec outv(const ca::vector<N, T> & a) { ivec v(N); for (std::size_t i = 0; i < N; ++i) { T x = a(i); v[i] = (long)x; if ((T)v[i] != x) v[i] = 999999999; } return v; }

template <std::size_t N, typename T>
static ivec layer_at(const imat & A, const ivec & v) {
    using I = cb::identity<cv::vector_d<T, N>>;
    using AF = cb::affine<I>;
    covfie::field<AF> f(covfie::make_parameter_pack(typename AF::configuration_t(mk<N, T>(A)), std::monostate{}));
    typename covfie::field<AF>::view_t vw(f);
    covfie::array::array<T, N> c;
    for (std::size_t i = 0; i < N; ++i) c[i] = (T)v[i];
    auto r = vw.at(c);
    {   // the same transform reached by move assignment / swap over a field that held another transform
        covfie::field<AF> other(covfie::make_parameter_pack(typename AF::configuration_t(ca::affine<N, T>(ca::matrix<N, N + 1, T>::identity())), std::monostate{}));
        covfie::field<AF> g(other);
        g = covfie::field<AF>(f);
        auto r2 = typename covfie::field<AF>::view_t(g).at(c);
        covfie::field<AF> h(other), f2(f);
        std::swap(h, f2);
        auto r3 = typename covfie::field<AF>::view_t(h).at(c);
        ++g_checks;
        for (std::size_t i = 0; i < N; ++i) if (r2[i] != r[i] || r3[i] != r[i]) { mismatch("affine-layer/after-move-assignment-or-swap", {{"A", A}, {"v", v}}); break; }
    }
    ivec o(N);
    for (std::size_t i = 0; i < N; ++i) { o[i] = (long)r[i]; if ((T)o[i] != r[i]) o[i] = 999999999; }
    // configuration read back
    auto cfg = f.backend().get_configuration();
    ++g_checks;
    if (out<N, T>(ca::affine<N, T>(cfg)) != A) mismatch("affine-layer/configuration", {{"A", A}});
    return o;
}

// The same case scaled by powers of two: the linear part by 2^ea, the coordinate by 2^ex, the translation by 2^(ea+ex).  Every
// product and sum stays exact (small integers times a power of two), so the layer must return (A v + t) * 2^(ea+ex) exactly -
// with matrix entries far below the smallest normal number and coordinates close to the largest finite one.
template <std::size_t N, typename T>
static void layer_scaled(const imat & A, const ivec & v, const ivec & want, int ea, int ex, const std::string & tag) {
    using I = cb::identity<cv::vector_d<T, N>>;
    using AF = cb::affine<I>;
    covfie::array::array<covfie::array::array<T, N + 1>, N> a;
    for (std::size_t i = 0; i < N; ++i) for (std::size_t j = 0; j < N + 1; ++j) a[i][j] = std::ldexp((T)A[i][j], j == N ? ea + ex : ea);
    covfie::field<AF> f(covfie::make_parameter_pack(typename AF::configuration_t(ca::affine<N, T>(ca::matrix<N, N + 1, T>(a))), std::monostate{}));
    typename covfie::field<AF>::view_t vw(f);
    covfie::array::array<T, N> c;
    for (std::size_t i = 0; i < N; ++i) c[i] = std::ldexp((T)v[i], ex);
    auto r = vw.at(c);
    ++g_checks;
    for (std::size_t i = 0; i < N; ++i)
        if (r[i] != std::ldexp((T)want[i], ea + ex)) { mismatch("affine-layer-scaled/" + tag, {{"A", A}, {"v", v}, {"matrix_scaled_by_2^", ea}, {"coordinate_scaled_by_2^", ex}, {"component", i}, {"got", (double)r[i]}, {"want", (double)std::ldexp((T)want[i], ea + ex)}}); break; }
}

// hidden state: the same products formed by several threads at once, each on its own operands, must equal the sequential ones
template <std::size_t N, typename T>
static void threaded_products(const std::vector<json> & pairs, int threads, const std::string & tag) {
    std::vector<std::pair<ca::affine<N, T>, ca::affine<N, T>>> ops;
    std::vector<imat> want;
    for (auto & c : pairs) { ops.push_back({mk<N, T>(c["A"].get<imat>()), mk<N, T>(c["B"].get<imat>())}); want.push_back(c["AB"].get<imat>()); }
    if (ops.empty()) return;
    std::atomic<long> bad{0}, go{0};
    std::vector<std::thread> th;
    for (int t = 0; t < threads; ++t) th.emplace_back([&, t] {
        go.fetch_add(1); while (go.load() < threads) std::this_thread::yield();
        for (int round = 0; round < 200; ++round)
            for (std::size_t k = (std::size_t)t % ops.size(), n = 0; n < ops.size(); ++n, k = (k + 1) % ops.size()) {
                ca::affine<N, T> a = ops[k].first, b = ops[k].second;      // private copies
                if (out<N, T>(a * b) != want[k]) bad.fetch_add(1);
            }
    });
    for (auto & x : th) x.join();
    g_checks += 200 * (long)ops.size() * threads;
    if (bad.load()) mismatch("affine-times-affine-concurrent/" + tag, {{"threads", threads}, {"wrong_products", bad.load()}, {"distinct_operand_pairs", ops.size()}});
}

template <std::size_t N, typename T, std::size_t... Is>
static ca::affine<N, T> translation_of(const ivec & t, std::index_sequence<Is...>) { return ca::affine<N, T>::translation((T)t[Is]...); }
template <std::size_t N, typename T, std::size_t... Is>
static ca::affine<N, T> scaling_of(const ivec & t, std::index_sequence<Is...>) { return ca::affine<N, T>::scaling((T)t[Is]...); }

template <std::size_t N, typename T>
static void run_case(const json & c) {
    const std::string tag = std::string("N") + std::to_string(N) + "/" + tname<T>();
    std::string kind = c["kind"];
    if (kind == "pair") {
        imat A = c["A"], B = c["B"]; ivec v = c["v"];
        json ctx = {{"A", A}, {"B", B}, {"v", v}};
        auto a = mk<N, T>(A); auto b = mk<N, T>(B); auto x = mkv<N, T>(v);
        expect_eq("affine-times-vector/" + tag, outv<N, T>(a * x), c["Av"].get<ivec>(), ctx);
        expect_eq("affine-times-vector/" + tag, outv<N, T>(b * x), c["Bv"].get<ivec>(), ctx);
        expect_eq("affine-times-affine/" + tag, out<N, T>(a * b), c["AB"].get<imat>(), ctx);
        expect_eq("composition-applied/" + tag, outv<N, T>((a * b) * x), c["ABv"].get<ivec>(), ctx);
        expect_eq("nested-application/" + tag, outv<N, T>(a * ca::vector<N, T>(b * x)), c["ABv"].get<ivec>(), ctx);
        expect_eq("affine-layer/" + tag, layer_at<N, T>(A, v), c["Av"].get<ivec>(), ctx);
        expect_eq("affine-layer-composed/" + tag, layer_at<N, T>(out<N, T>(a * b), v), c["ABv"].get<ivec>(), ctx);
        if constexpr (std::is_same_v<T, float>) { layer_scaled<N, T>(A, v, c["Av"].get<ivec>(), -133, 122, tag); layer_scaled<N, T>(A, v, c["Av"].get<ivec>(), 100, -90, tag); }
        else { layer_scaled<N, T>(A, v, c["Av"].get<ivec>(), -1035, 1018, tag); layer_scaled<N, T>(A, v, c["Av"].get<ivec>(), 900, -800, tag); }
    } else if (kind == "chain") {
        std::vector<imat> Ms = c["Ms"]; ivec v = c["v"];
        json ctx = {{"Ms", Ms}, {"v", v}};
        auto m1 = mk<N, T>(Ms[0]), m2 = mk<N, T>(Ms[1]), m3 = mk<N, T>(Ms[2]), m4 = mk<N, T>(Ms[3]);
        expect_eq("chain-left/" + tag, out<N, T>(((m1 * m2) * m3) * m4), c["prod"].get<imat>(), ctx);
        expect_eq("chain-right/" + tag, out<N, T>(m1 * (m2 * (m3 * m4))), c["prod"].get<imat>(), ctx);
        expect_eq("chain-applied/" + tag, outv<N, T>((((m1 * m2) * m3) * m4) * mkv<N, T>(v)), c["r"].get<ivec>(), ctx);
    } else if (kind == "factory") {
        ivec t = c["t"], v = c["v"];
        json ctx = {{"t", t}, {"v", v}};
        auto tr = translation_of<N, T>(t, std::make_index_sequence<N>{});
        auto sc = scaling_of<N, T>(t, std::make_index_sequence<N>{});
        ca::affine<N, T> id(ca::matrix<N, N + 1, T>::identity());
        expect_eq("translation-matrix/" + tag, out<N, T>(tr), c["T"].get<imat>(), ctx);
        expect_eq("scaling-matrix/" + tag, out<N, T>(sc), c["S"].get<imat>(), ctx);
        expect_eq("identity-matrix/" + tag, out<N, T>(id), c["I"].get<imat>(), ctx);
        expect_eq("translation-applied/" + tag, outv<N, T>(tr * mkv<N, T>(v)), c["translated"].get<ivec>(), ctx);
        expect_eq("scaling-applied/" + tag, outv<N, T>(sc * mkv<N, T>(v)), c["scaled"].get<ivec>(), ctx);
        expect_eq("identity-applied/" + tag, outv<N, T>(id * mkv<N, T>(v)), v, ctx);
    }
}

template <std::size_t R, std::size_t K, std::size_t C, typename T>
static void run_matmul(const json & c) {
    imat P = c["P"], Q = c["Q"], want = c["PQ"];
    covfie::array::array<covfie::array::array<T, K>, R> a; covfie::array::array<covfie::array::array<T, C>, K> b;
    for (std::size_t i = 0; i < R; ++i) for (std::size_t j = 0; j < K; ++j) a[i][j] = (T)P[i][j];
    for (std::size_t i = 0; i < K; ++i) for (std::size_t j = 0; j < C; ++j) b[i][j] = (T)Q[i][j];
    ca::matrix<R, K, T> ma(a); ca::matrix<K, C, T> mb(b);
    auto r = ma * mb;
    imat got(R, ivec(C));
    for (std::size_t i = 0; i < R; ++i) for (std::size_t j = 0; j < C; ++j) { T x = r(i, j); got[i][j] = (long)x; if ((T)got[i][j] != x) got[i][j] = 999999999; }
    expect_eq(std::string("matrix-product/") + std::to_string(R) + "x" + std::to_string(K) + "x" + std::to_string(C) + "/" + tname<T>(), got, want, {{"P", P}, {"Q", Q}});
}
template <typename T>
static void run_matmul_any(const json & c) {
    auto sh = c["shape"].get<std::vector<int>>();
    if (sh == std::vector<int>{1, 1, 1}) run_matmul<1, 1, 1, T>(c);
    else if (sh == std::vector<int>{2, 2, 2}) run_matmul<2, 2, 2, T>(c);
    else if (sh == std::vector<int>{3, 2, 4}) run_matmul<3, 2, 4, T>(c);
    else if (sh == std::vector<int>{2, 3, 1}) run_matmul<2, 3, 1, T>(c);
    else if (sh == std::vector<int>{3, 3, 3}) run_matmul<3, 3, 3, T>(c);
    else if (sh == std::vector<int>{1, 4, 2}) run_matmul<1, 4, 2, T>(c);
}

template <std::size_t N, typename T>
static void trace(rng & r, std::ofstream & o, long n, long & events) {
    auto rmat = [&](long lim) { imat m(N, ivec(N + 1)); for (auto & row : m) for (auto & x : row) x = (long)r.below(2 * lim + 1) - lim; return m; };
    auto rvec = [&](long lim) { ivec v(N); for (auto & x : v) x = (long)r.below(2 * lim + 1) - lim; return v; };
    for (long q = 0; q < n; ++q) {
        // double: entries up to 8000, so products exceed 2^24 (not representable in float) yet stay below 2^31 for TLC
        imat A = rmat(8000), B = rmat(8000); ivec v = rvec(1);
        if (std::is_same_v<T, float>) { A = rmat(200); B = rmat(200); v = rvec(20); }   // < 2^24: exact in float
        auto a = mk<N, T>(A), b = mk<N, T>(B);
        o << json({{"e", "pair"}, {"t", tname<T>()}, {"A", A}, {"B", B}, {"v", v}, {"AB", out<N, T>(a * b)}, {"ABv", outv<N, T>((a * b) * mkv<N, T>(v))},
                   {"layer", layer_at<N, T>(A, v)}}).dump() << "\n";
        ++events;
        std::vector<imat> Ms = {rmat(12), rmat(12), rmat(12), rmat(12)};
        ivec w = rvec(3);
        auto p = ((mk<N, T>(Ms[0]) * mk<N, T>(Ms[1])) * mk<N, T>(Ms[2])) * mk<N, T>(Ms[3]);
        o << json({{"e", "chain"}, {"t", tname<T>()}, {"Ms", Ms}, {"v", w}, {"prod", out<N, T>(p)}, {"r", outv<N, T>(p * mkv<N, T>(w))}}).dump() << "\n";
        ++events;
    }
}

int main(int argc, char ** argv) {
    install_terminate();
    std::string mode = argv[1];
    if (mode == "replay") {
        {   // the factories called the way a user writes them, with arguments of MIXED arithmetic types (exact dyadic values)
            auto chk = [&](const char * what, double got, double want) { ++g_checks; if (got != want) mismatch(std::string("factory-mixed-arguments/") + what, {{"got", got}, {"want", want}}); };
            auto s2 = ca::affine<2, float>::scaling(2, 0.5f);              chk("scaling2f(0,0)", s2(0, 0), 2);     chk("scaling2f(1,1)", s2(1, 1), 0.5);  chk("scaling2f(0,1)", s2(0, 1), 0);
            auto s3 = ca::affine<3, double>::scaling(4, 0.25, 1.5f);        chk("scaling3d(1,1)", s3(1, 1), 0.25);  chk("scaling3d(2,2)", s3(2, 2), 1.5);
            auto t3 = ca::affine<3, float>::translation(10, -20, 0.75);    chk("translation3f(0,3)", t3(0, 3), 10); chk("translation3f(1,3)", t3(1, 3), -20); chk("translation3f(2,3)", t3(2, 3), 0.75);
            auto t2 = ca::affine<2, double>::translation(1, 2.5);          chk("translation2d(1,2)", t2(1, 2), 2.5);
            ca::vector<2, float> v2(1, 2.5f);                               chk("vector2f(1)", v2(1), 2.5);
            auto p = s2 * ca::affine<2, float>::translation(1, 0.25f);     chk("product(1,2)", p(1, 2), 0.125);    chk("product(0,2)", p(0, 2), 2);
        }
        for (auto & c : read_ndjson(argv[2])) {
            ++g_cases;
            if (c["kind"] == "matmul") { run_matmul_any<float>(c); run_matmul_any<double>(c); continue; }
            switch (c["n"].get<int>()) {
                case 1: run_case<1, float>(c); run_case<1, double>(c); break;
                case 2: run_case<2, float>(c); run_case<2, double>(c); break;
                case 3: run_case<3, float>(c); run_case<3, double>(c); break;
                case 4: run_case<4, float>(c); run_case<4, double>(c); break;
            }
        }
        summary();
    } else if (mode == "threads") {     // threads <cases> <T>
        std::map<int, std::vector<json>> by_n;
        for (auto & c : read_ndjson(argv[2])) if (c["kind"] == "pair" && by_n[c["n"].get<int>()].size() < 40) by_n[c["n"].get<int>()].push_back(c);
        int T = std::atoi(argv[3]);
        threaded_products<1, float>(by_n[1], T, "N1/float"); threaded_products<2, float>(by_n[2], T, "N2/float"); threaded_products<3, double>(by_n[3], T, "N3/double");
        threaded_products<4, float>(by_n[4], T, "N4/float"); threaded_products<2, double>(by_n[2], T, "N2/double"); threaded_products<3, float>(by_n[3], T, "N3/float");
        g_cases = 6;
        summary();
    } else if (mode == "trace") {
        rng r(std::strtoull(argv[2], nullptr, 10));
        long n = std::atol(argv[3]);
        std::ofstream o(argv[4]);
        long events = 0;
        trace<1, float>(r, o, n, events); trace<1, double>(r, o, n, events);
        trace<2, float>(r, o, n, events); trace<2, double>(r, o, n, events);
        trace<3, float>(r, o, n, events); trace<3, double>(r, o, n, events);
        trace<4, float>(r, o, n, events); trace<4, double>(r, o, n, events);
        g_cases = events;
        summary({{"events", events}});
    }
    return 0;
}
