// C18: round_pow2 / ipow.  replay: TLC-emitted tables at W=8/12/16 against the uint8_t / uint16_t
// instantiations.  trace: 32- and 64-bit executions logged as 8-bit limbs for Trace_Numeric.
#include <covfie/core/utility/numeric.hpp>
#include "common.hpp"
using namespace vf;
using covfie::utility::ipow;
using covfie::utility::round_pow2;

template <typename T>
static std::vector<int> limbs(T v) {
    std::vector<int> o;
    for (std::size_t k = 0; k < sizeof(T); ++k) { o.push_back((int)(v & 0xFF)); v = (T)(v >> 4 >> 4); }
    return o;
}

template <typename T>
static void replay_rp(const json & c) {
    auto in = c["inputs"].get<std::vector<uint64_t>>();
    auto out = c["outputs"].get<std::vector<uint64_t>>();
    for (std::size_t k = 0; k < in.size(); ++k) {
        T r = round_pow2<T>((T)in[k]);
        expect_eq("round_pow2/w" + std::to_string(c["w"].get<int>()) + "/uint" + std::to_string(8 * sizeof(T)),
                  (uint64_t)r, out[k], {{"i", in[k]}});
    }
}

template <typename T>
static void replay_ip(const json & c) {
    uint64_t b = c["base"].get<uint64_t>();
    auto es = c["exps"].get<std::vector<uint64_t>>();
    auto ps = c["pows"].get<std::vector<uint64_t>>();
    for (std::size_t k = 0; k < es.size(); ++k) {
        T r = ipow<T>((T)b, (T)es[k]);
        expect_eq("ipow/uint" + std::to_string(8 * sizeof(T)), (uint64_t)r, ps[k], {{"b", b}, {"e", es[k]}});
    }
}

template <typename T>
static void trace_width(rng & r, std::ofstream & out, long n_rp, long n_ip, long & events) {
    const int n = sizeof(T);
    const int w = 8 * n;
    // round_pow2: every boundary 2^k, 2^k +- 1 inside the domain, then random values
    for (int k = 0; k < w; ++k) {
        for (int off = -1; off <= 1; ++off) {
            T i = (T)((T(1) << k) + (T)off);
            if (i < 1 || i > (T(1) << (w - 1))) continue;
            out << json({{"e", "rp"}, {"n", n}, {"i", limbs<T>(i)}, {"r", limbs<T>(round_pow2<T>(i))}}).dump() << "\n";
            ++events;
        }
    }
    for (long q = 0; q < n_rp; ++q) {
        int bits = 1 + (int)r.below(w - 1);
        T i = (T)(r.next() & ((bits >= 64) ? ~0ull : ((1ull << bits) - 1)));
        if (i < 1) i = 1;
        if (i > (T(1) << (w - 1))) i = (T(1) << (w - 1));
        out << json({{"e", "rp"}, {"n", n}, {"i", limbs<T>(i)}, {"r", limbs<T>(round_pow2<T>(i))}}).dump() << "\n";
        ++events;
    }
    // ipow: boundary bases x small/large exponents, then random
    std::vector<T> bases = {0, 1, 2, 3, 5, 10, (T)0xFF, (T)0x100, (T)0x101, (T)0xFFFF, (T)0x10001, (T)~T(0), (T)(~T(0) - 1),
                            (T)(T(1) << (w - 1)), (T)((T(1) << (w / 2)) + 1), (T)((T(1) << (w / 2)) - 1)};
    std::vector<int> exps = {0, 1, 2, 3, 4, 7, 8, 15, 16, 17, 31, 32, 33, 63, 64, 65, 100};
    for (T b : bases)
        for (int p : exps) {
            out << json({{"e", "ipow"}, {"n", n}, {"b", limbs<T>(b)}, {"p", p}, {"r", limbs<T>(ipow<T>(b, (T)p))}}).dump() << "\n";
            ++events;
        }
    for (long q = 0; q < n_ip; ++q) {
        T b = (T)r.next();
        int p = (int)r.below(130);
        out << json({{"e", "ipow"}, {"n", n}, {"b", limbs<T>(b)}, {"p", p}, {"r", limbs<T>(ipow<T>(b, (T)p))}}).dump() << "\n";
        ++events;
    }
}

int main(int argc, char ** argv) {
    install_terminate();
    std::string mode = argv[1];
    if (mode == "replay") {
        for (int a = 2; a < argc; ++a)
            for (auto & c : read_ndjson(argv[a])) {
                ++g_cases;
                int w = c["w"].get<int>();
                if (c["kind"] == "round_pow2") {
                    if (w == 8) replay_rp<uint8_t>(c);
                    if (w <= 16) replay_rp<uint16_t>(c);   // W=8 and W=12 tables also hold at wider types
                    if (w <= 16) replay_rp<uint32_t>(c);
                    if (w <= 16) replay_rp<uint64_t>(c);
                } else {
                    if (w == 8) replay_ip<uint8_t>(c);
                    if (w == 16) replay_ip<uint16_t>(c);
                }
            }
        summary();
    } else if (mode == "trace") {  // trace <seed> <n_rp> <n_ip> <out>
        rng r(std::strtoull(argv[2], nullptr, 10));
        std::ofstream out(argv[5]);
        long events = 0;
        trace_width<uint32_t>(r, out, std::atol(argv[3]), std::atol(argv[4]), events);
        trace_width<uint64_t>(r, out, std::atol(argv[3]), std::atol(argv[4]), events);
        g_cases = events;
        summary({{"events", events}});
    } else if (mode == "intervals") {  // intervals <kmax> <out>: every uint32_t i in (2^(k-1), 2^k] for k = 1..kmax
        int kmax = std::atoi(argv[2]);
        std::ofstream out(argv[3]);
        long events = 0;
        for (int k = 1; k <= kmax; ++k) {
            uint32_t lo = (1u << (k - 1)) + 1, hi = 1u << k;
            uint32_t first = round_pow2<uint32_t>(lo);
            uint32_t count = 0;
            int distinct = 1;
            for (uint32_t i = lo;; ++i) {
                if (round_pow2<uint32_t>(i) != first) distinct = 2;
                ++count;
                if (i == hi) break;
            }
            out << json({{"e", "rp_interval"}, {"n", 4}, {"k", k}, {"distinct", distinct}, {"v", limbs<uint32_t>(first)},
                         {"count", limbs<uint32_t>(count)}}).dump() << "\n";
            ++events;
        }
        g_cases = events;
        summary({{"events", events}});
    }
    return 0;
}
