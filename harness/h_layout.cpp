// C01 / C14 / C18(sizing): storage-order layers.
//   replay <cases.ndjson>      TLC-emitted (layout, extents, size, every coordinate -> flat index):
//                              (a) layer over identity<size1>: looked-up value == flat index
//                              (b) layer over the real array backend obtained by converting a row-major
//                                  field: allocated size, values after conversion, write/read-back
//   curve <cases.ndjson>       TLC-emitted Morton coordinate vectors / Hilbert walks (C14)
//   trace <seed> <n> <out>     random inputs beyond the bound -> ndjson for Trace_Layout
#include <algorithm>
#include <map>
#include <set>
#include <covfie/core/backend/primitive/array.hpp>
#include <covfie/core/backend/primitive/identity.hpp>
#include <covfie/core/backend/transformer/hilbert.hpp>
#include <covfie/core/backend/transformer/morton.hpp>
#include <covfie/core/backend/transformer/strided.hpp>
#include <covfie/core/field.hpp>
#include "common.hpp"

using namespace vf;
namespace cb = covfie::backend;
namespace cv = covfie::vector;

struct L_strided { template <typename In, typename St> using type = cb::strided<In, St>; static constexpr const char * name = "strided"; };
struct L_morton { template <typename In, typename St> using type = cb::morton<In, St, true>; static constexpr const char * name = "morton"; };
struct L_mortonp { template <typename In, typename St> using type = cb::morton<In, St, false>; static constexpr const char * name = "morton_portable"; };
struct L_hilbert { template <typename In, typename St> using type = cb::hilbert<In, St>; static constexpr const char * name = "hilbert"; };

using idb = cb::identity<cv::vector_d<std::size_t, 1>>;

template <typename T> static const char * tname();
template <> const char * tname<std::size_t>() { return "size_t"; }
template <> const char * tname<unsigned>() { return "unsigned"; }
template <> const char * tname<int>() { return "int"; }
template <> const char * tname<float>() { return "float"; }
template <> const char * tname<double>() { return "double"; }

template <typename B, std::size_t N>
static covfie::field<B> make_identity_field(const std::vector<uint64_t> & ext) {
    typename B::configuration_t cfg;
    for (std::size_t k = 0; k < N; ++k) cfg[k] = ext[k];
    return covfie::field<B>(covfie::make_parameter_pack(std::move(cfg), idb::configuration_t{}));
}

template <typename CoordT, std::size_t N>
static covfie::array::array<CoordT, N> mkcoord(const std::vector<uint64_t> & c) {
    covfie::array::array<CoordT, N> r;
    for (std::size_t k = 0; k < N; ++k) r[k] = static_cast<CoordT>(c[k]);
    return r;
}

static std::map<std::vector<uint64_t>, std::map<std::vector<uint64_t>, uint64_t>> g_rowmajor;   // extents -> (coordinate -> row-major position), from TLC

// (a) + (b) for one TLC case
template <typename L, std::size_t N, typename CoordT, typename StoreT, std::size_t M>
static void replay_case(const json & c) {
    const std::string tag = std::string(L::name) + "/N" + std::to_string(N) + "/" + tname<CoordT>() + "/" + tname<StoreT>() + std::to_string(M);
    auto ext = c["ext"].get<std::vector<uint64_t>>();
    uint64_t want_size = c["size"].get<uint64_t>();
    json ctx = {{"layout", L::name}, {"ext", ext}, {"inst", tag}};
    using In = cv::vector_d<CoordT, N>;
    // (a) flat index through the real layer over the identity backend
    {
        using BI = typename L::template type<In, idb>;
        auto f = make_identity_field<BI, N>(ext);
        typename covfie::field<BI>::view_t v(f);
        for (auto & e : c["box"]) {
            auto cc = e["c"].get<std::vector<uint64_t>>();
            uint64_t got = v.at(mkcoord<CoordT, N>(cc))[0];
            json x = ctx; x["c"] = cc;
            expect_eq("index/" + tag, got, e["idx"].get<uint64_t>(), x);
            ++g_checks;
            if (got >= want_size) mismatch("index-outside-storage/" + tag, x);
        }
    }
    // (b) over real storage
    {
        using A = cb::array<cv::vector_d<StoreT, M>>;
        using RS = cb::strided<In, A>;
        using BL = typename L::template type<In, A>;
        typename RS::configuration_t cfg;
        uint64_t prod = 1;
        for (std::size_t k = 0; k < N; ++k) { cfg[k] = ext[k]; prod *= ext[k]; }
        covfie::field<RS> rs(covfie::make_parameter_pack(std::move(cfg), typename A::configuration_t{prod}));
        {
            typename covfie::field<RS>::view_t rv(rs);
            long k = 0;
            for (auto & e : c["box"]) {
                auto cc = mkcoord<CoordT, N>(e["c"].get<std::vector<uint64_t>>());
                for (std::size_t q = 0; q < M; ++q) rv.at(cc)[q] = static_cast<StoreT>(k * 4 + (long)q + 1);
                ++k;
            }
        }
        covfie::field<BL> f(rs);   // re-layout conversion: this is how a correctly sized curve field is obtained
        uint64_t got_size = f.backend().get_backend().get_configuration()[0];
        expect_eq("storage-size/" + tag, got_size, want_size, ctx);
        for (std::size_t k = 0; k < N; ++k) expect_eq("extent-config/" + tag, (uint64_t)f.backend().get_configuration()[k], ext[k], ctx);
        typename covfie::field<BL>::view_t v(f);
        long k = 0;
        for (auto & e : c["box"]) {
            auto cc = mkcoord<CoordT, N>(e["c"].get<std::vector<uint64_t>>());
            for (std::size_t q = 0; q < M; ++q) {
                json x = ctx; x["c"] = e["c"]; x["q"] = q;
                expect_eq("value-after-conversion/" + tag, (double)v.at(cc)[q], (double)(k * 4 + (long)q + 1), x);
            }
            ++k;
        }
        // the same field reached by copy assignment into a smaller, already allocated field of the same type: every access
        // must still stay inside the (new) storage and read the same values
        {
            typename RS::configuration_t one; for (std::size_t k = 0; k < N; ++k) one[k] = 1;
            covfie::field<RS> tiny(covfie::make_parameter_pack(std::move(one), typename A::configuration_t{1ul}));
            covfie::field<BL> g(tiny);
            g = f;
            typename covfie::field<BL>::view_t gv(g);
            long kk = 0;
            for (auto & e : c["box"]) {
                auto cc = mkcoord<CoordT, N>(e["c"].get<std::vector<uint64_t>>());
                json x = ctx; x["c"] = e["c"]; x["reached_by"] = "copy assignment into a smaller field";
                expect_eq("value-after-assignment/" + tag, (double)gv.at(cc)[0], (double)(kk * 4 + 1), x);
                gv.at(cc)[0] = static_cast<StoreT>(7);
                ++kk;
            }
            expect_eq("storage-size-after-assignment/" + tag, (uint64_t)g.backend().get_backend().get_configuration()[0], want_size, ctx);
        }
        // C14 "stores coordinate c at flat position p": look at the storage block itself, not only at lookups
        {
            typename A::non_owning_data_t raw(f.backend().get_backend());
            long kk = 0;
            for (auto & e : c["box"]) {
                uint64_t pos = e["idx"].get<uint64_t>();
                json x = ctx; x["c"] = e["c"]; x["position"] = pos;
                if (pos < got_size) expect_eq("storage-position/" + tag, (double)raw.at(pos)[0], (double)(kk * 4 + 1), x);
                ++kk;
            }
            // ... and of a row-major field obtained by converting this one back (re-layout copy into row-major order)
            if constexpr (std::is_same_v<CoordT, std::size_t>) {
                covfie::field<RS> back(f);
                typename A::non_owning_data_t rawb(back.backend().get_backend());
                auto it = g_rowmajor.find(ext);
                long k2 = 0;
                if (it != g_rowmajor.end())
                    for (auto & e : c["box"]) {
                        auto pit = it->second.find(e["c"].get<std::vector<uint64_t>>());
                        if (pit != it->second.end()) {
                            json x = ctx; x["c"] = e["c"]; x["position"] = pit->second; x["obtained_by"] = "conversion to row-major";
                            expect_eq("storage-position/converted-to-strided-from-" + tag, (double)rawb.at(pit->second)[0], (double)(k2 * 4 + 1), x);
                        }
                        ++k2;
                    }
            }
        }
        // write / read-back through the view of the curve-ordered field
        const bool small = c["box"].size() <= 16;
        std::vector<double> model(c["box"].size() * M, 0.0);
        k = 0;
        for (auto & e : c["box"]) { for (std::size_t q = 0; q < M; ++q) model[k * M + q] = (double)(k * 4 + (long)q + 1); ++k; }
        long w = 0;
        for (auto & e : c["box"]) {
            auto cc = mkcoord<CoordT, N>(e["c"].get<std::vector<uint64_t>>());
            for (std::size_t q = 0; q < M; ++q) { v.at(cc)[q] = static_cast<StoreT>(1000 + w * 4 + (long)q); model[w * M + q] = 1000 + w * 4 + (long)q; }
            ++w;
            if (small || w == (long)c["box"].size()) {
                long r = 0;
                for (auto & e2 : c["box"]) {
                    auto c2 = mkcoord<CoordT, N>(e2["c"].get<std::vector<uint64_t>>());
                    for (std::size_t q = 0; q < M; ++q) {
                        json x = ctx; x["written"] = e["c"]; x["read"] = e2["c"]; x["q"] = q;
                        expect_eq("read-after-write/" + tag, (double)v.at(c2)[q], model[r * M + q], x);
                    }
                    ++r;
                }
            }
        }
    }
}

using replay_fn = void (*)(const json &);
static std::map<std::string, std::vector<replay_fn>> g_table;   // key: layout/N

template <typename L, std::size_t N>
static void reg() {
    // full cross layout x N x coordinate type; (storage, M) rotate so that every M and both widths occur
    std::string key = std::string(L::name) + "/" + std::to_string(N);
    g_table[key].push_back(&replay_case<L, N, std::size_t, float, ((N + 0) % 4) + 1>);
    g_table[key].push_back(&replay_case<L, N, unsigned, double, ((N + 1) % 4) + 1>);
    g_table[key].push_back(&replay_case<L, N, int, float, ((N + 2) % 4) + 1>);
    g_table[key].push_back(&replay_case<L, N, std::size_t, double, ((N + 3) % 4) + 1>);
}

#ifndef VF_LAYOUT_PART
#define VF_LAYOUT_PART 0
#endif

static void reg_all() {
#if VF_LAYOUT_PART == 0 || VF_LAYOUT_PART == 1
    reg<L_strided, 1>(); reg<L_strided, 2>(); reg<L_strided, 3>(); reg<L_strided, 4>();
    reg<L_hilbert, 2>();
#endif
#if VF_LAYOUT_PART == 0 || VF_LAYOUT_PART == 2
    reg<L_morton, 1>(); reg<L_morton, 2>(); reg<L_morton, 3>(); reg<L_morton, 4>();
#endif
#if VF_LAYOUT_PART == 0 || VF_LAYOUT_PART == 3
    reg<L_mortonp, 1>(); reg<L_mortonp, 2>(); reg<L_mortonp, 3>(); reg<L_mortonp, 4>();
#endif
}

// ---------------------------------------------------------------- curve (C14)
template <typename L, std::size_t N, typename CoordT>
static uint64_t index_of(const std::vector<uint64_t> & ext, const std::vector<uint64_t> & c) {
    using BI = typename L::template type<cv::vector_d<CoordT, N>, idb>;
    auto f = make_identity_field<BI, N>(ext);
    typename covfie::field<BI>::view_t v(f);
    return v.at(mkcoord<CoordT, N>(c))[0];
}

template <std::size_t N>
static void curve_morton(const json & c) {
    auto cc = c["c"].get<std::vector<uint64_t>>();
    std::vector<uint64_t> ext(N);
    for (std::size_t k = 0; k < N; ++k) ext[k] = cc[k] + 1;
    uint64_t want = c["idx"].get<uint64_t>();
    json ctx = {{"c", cc}};
    expect_eq("morton-curve/bmi2path/N" + std::to_string(N), index_of<L_morton, N, std::size_t>(ext, cc), want, ctx);
    expect_eq("morton-curve/portable/N" + std::to_string(N), index_of<L_mortonp, N, std::size_t>(ext, cc), want, ctx);
    bool fits = true;
    for (auto x : cc) if (x > 0x7fffffffull) fits = false;
    if (fits) {
        expect_eq("morton-curve/portable-unsigned/N" + std::to_string(N), index_of<L_mortonp, N, unsigned>(ext, cc), want, ctx);
        expect_eq("morton-curve/bmi2path-int/N" + std::to_string(N), index_of<L_morton, N, int>(ext, cc), want, ctx);
    }
    // the static index function is public API too
    using MB = cb::morton<cv::vector_d<std::size_t, N>, idb, true>;
    using MP = cb::morton<cv::vector_d<std::size_t, N>, idb, false>;
    expect_eq("morton-curve/static-bmi2path/N" + std::to_string(N), (uint64_t)MB::calculate_index(mkcoord<std::size_t, N>(cc)), want, ctx);
    expect_eq("morton-curve/static-portable/N" + std::to_string(N), (uint64_t)MP::calculate_index(mkcoord<std::size_t, N>(cc)), want, ctx);
}

static void curve_hilbert(const json & c) {
    int k = c["k"].get<int>();
    uint64_t n = 1ull << k;
    std::vector<uint64_t> ext = {n, n};
    using BI = cb::hilbert<cv::vector_d<std::size_t, 2>, idb>;
    auto f = make_identity_field<BI, 2>(ext);
    covfie::field<BI>::view_t v(f);
    uint64_t d = 0;
    for (auto & p : c["walk"]) {
        auto cc = p.get<std::vector<uint64_t>>();
        expect_eq("hilbert-curve/k" + std::to_string(k), (uint64_t)v.at(mkcoord<std::size_t, 2>(cc))[0], d, {{"k", k}, {"c", cc}});
        ++d;
    }
}

// ---------------------------------------------------------------- trace
static std::vector<int> bits64(uint64_t v) { std::vector<int> b(64); for (int i = 0; i < 64; ++i) b[i] = (int)((v >> i) & 1); return b; }

template <std::size_t N>
static void trace_mortonbits(rng & r, std::ofstream & out, long n, long & events) {
    const int top = 64 / (int)N;
    const uint64_t lim = top >= 64 ? ~0ull : ((1ull << top) - 1);
    std::vector<uint64_t> pats = {0, 1, lim, lim >> 1, (lim >> 1) + 1, 0x5555555555555555ull & lim, 0xAAAAAAAAAAAAAAAAull & lim, 1ull << (top - 1)};
    for (long q = 0; q < n; ++q) {
        std::vector<uint64_t> c(N);
        for (auto & x : c) {
            uint64_t sel = r.below(10);
            x = sel < 4 ? pats[r.below(pats.size())] : (sel < 7 ? (1ull << r.below(top)) : (r.next() & lim));
        }
        std::vector<uint64_t> ext(N, 0);  // extents only matter for the debug assertion: make them just large enough
        bool skip = false;
        for (std::size_t k = 0; k < N; ++k) { if (c[k] == ~0ull) skip = true; ext[k] = c[k] + 1; }
        if (skip) continue;
        for (int variant = 0; variant < 2; ++variant) {
            uint64_t idx = variant == 0 ? index_of<L_morton, N, std::size_t>(ext, c) : index_of<L_mortonp, N, std::size_t>(ext, c);
            json cb_ = json::array();
            for (auto x : c) cb_.push_back(bits64(x));
            out << json({{"e", "mortonbits"}, {"n", N}, {"impl", variant == 0 ? "morton" : "morton_portable"}, {"c", cb_}, {"idx", bits64(idx)}}).dump() << "\n";
            ++events;
        }
        // the same coordinates held in a 32-bit coordinate type (the position still needs up to 64 bits)
        bool fits32 = true;
        for (std::size_t k = 0; k < N; ++k) if (ext[k] > 0xFFFFFFFFull) fits32 = false;
        if (fits32) for (int variant = 0; variant < 2; ++variant) {
            uint64_t idx = variant == 0 ? index_of<L_morton, N, unsigned>(ext, c) : index_of<L_mortonp, N, unsigned>(ext, c);
            json cb_ = json::array();
            for (auto x : c) cb_.push_back(bits64(x));
            out << json({{"e", "mortonbits"}, {"n", N}, {"impl", variant == 0 ? "morton/uint32" : "morton_portable/uint32"}, {"c", cb_}, {"idx", bits64(idx)}}).dump() << "\n";
            ++events;
        }
    }
}

template <std::size_t N>
static void trace_row(rng & r, std::ofstream & out, long n, long & events) {
    for (long q = 0; q < n; ++q) {
        std::vector<uint64_t> ext(N), c(N);
        uint64_t budget = 1ull << 30;
        for (std::size_t k = 0; k < N; ++k) {
            uint64_t mx = std::max<uint64_t>(1, std::min<uint64_t>(budget, 1ull << (30 / N + 3)));
            ext[k] = 1 + r.below(mx);
            if (ext[k] > budget) ext[k] = budget;
            budget /= ext[k];
            if (budget == 0) budget = 1;
            c[k] = r.below(5) == 0 ? ext[k] - 1 : r.below(ext[k]);
        }
        uint64_t idx = index_of<L_strided, N, std::size_t>(ext, c);
        out << json({{"e", "row"}, {"ext", ext}, {"c", c}, {"idx", idx}}).dump() << "\n";
        ++events;
    }
}

static std::vector<int> limbs8(uint64_t v) { std::vector<int> o; for (int k = 0; k < 8; ++k) { o.push_back((int)(v & 0xFF)); v >>= 8; } return o; }
// row-major fields with more than 2^32 cells (identity-backed: no memory), extents / coordinates / position as 8-bit limbs
template <std::size_t N>
static void trace_rowbig(rng & r, std::ofstream & out, long n, long & events) {
    for (long q = 0; q < n; ++q) {
        std::vector<uint64_t> ext(N), c(N);
        int budget = 62;                                   // total bits of the product
        for (std::size_t k = 0; k < N; ++k) {
            int bits = (k + 1 == N) ? std::min(budget, 34 + (int)r.below(8)) : std::min(budget - 1, 1 + (int)r.below(62 / (int)N));
            if (bits < 1) bits = 1;
            ext[k] = (1ull << bits) + r.below(1ull << bits) / 3 + 1; budget -= bits + 1; if (budget < 1) budget = 1;
            c[k] = r.below(4) == 0 ? ext[k] - 1 : r.below(ext[k]);
        }
        uint64_t idx = index_of<L_strided, N, std::size_t>(ext, c);
        json je = json::array(), jc = json::array();
        for (std::size_t k = 0; k < N; ++k) { je.push_back(limbs8(ext[k])); jc.push_back(limbs8(c[k])); }
        out << json({{"e", "rowbig"}, {"ext", je}, {"c", jc}, {"idx", limbs8(idx)}}).dump() << "\n";
        ++events;
    }
}

template <typename L, std::size_t N>
static void trace_sized(rng & r, std::ofstream & out, long n, uint64_t maxext, const char * ev, long & events) {
    using In = cv::vector_d<std::size_t, N>;
    using A = cb::array<cv::vector_d<float, 1>>;
    using RS = cb::strided<In, A>;
    using BL = typename L::template type<In, A>;
    for (long q = 0; q < n; ++q) {
        std::vector<uint64_t> ext(N);
        typename RS::configuration_t cfg;
        uint64_t prod = 1;
        for (std::size_t k = 0; k < N; ++k) { ext[k] = 1 + r.below(maxext); cfg[k] = ext[k]; prod *= ext[k]; }
        covfie::field<RS> rs(covfie::make_parameter_pack(std::move(cfg), typename A::configuration_t{prod}));
        covfie::field<BL> f(rs);
        uint64_t size = f.backend().get_backend().get_configuration()[0];
        {   // the same layer obtained from an RVALUE row-major field (field(field<other> &&)): same storage size, same cells
            { typename covfie::field<RS>::view_t rv(rs); covfie::array::array<std::size_t, N> c0; for (std::size_t k = 0; k < N; ++k) c0[k] = ext[k] - 1; rv.at(c0)[0] = 42.f; }
            covfie::field<BL> f1(rs);
            covfie::field<RS> tmp(rs);
            covfie::field<BL> g(std::move(tmp));
            ++g_checks;
            if ((uint64_t)g.backend().get_backend().get_configuration()[0] != (uint64_t)f1.backend().get_backend().get_configuration()[0])
                mismatch(std::string("layout/converted-from-rvalue/storage-size/") + L::name, {{"ext", ext}, {"got", (uint64_t)g.backend().get_backend().get_configuration()[0]}, {"want", (uint64_t)f1.backend().get_backend().get_configuration()[0]}});
            else {
                typename covfie::field<BL>::view_t v1(f1), v2(g);
                covfie::array::array<std::size_t, N> c0; for (std::size_t k = 0; k < N; ++k) c0[k] = ext[k] - 1;
                if (v1.at(c0)[0] != 42.f || v2.at(c0)[0] != 42.f) mismatch(std::string("layout/converted-from-rvalue/value/") + L::name, {{"ext", ext}});
            }
        }
        for (int s = 0; s < 6; ++s) {
            std::vector<uint64_t> c(N);
            for (std::size_t k = 0; k < N; ++k) c[k] = (s == 0) ? ext[k] - 1 : r.below(ext[k]);
            uint64_t idx = index_of<L, N, std::size_t>(ext, c);
            if (std::string(ev) == "hilbert")
                out << json({{"e", ev}, {"ext", ext}, {"c", c}, {"d", idx}, {"size", size}}).dump() << "\n";
            else
                out << json({{"e", ev}, {"ext", ext}, {"c", c}, {"idx", idx}, {"size", size}}).dump() << "\n";
            ++events;
        }
    }
}

// array storage with an index type narrower than size_t, on extents whose padded hypercube has exactly 2^bits cells: every
// position fits the index type, the cell COUNT does not - it must still be computed (and allocated) in full width
template <typename L, typename I>
static void trace_sized_narrow(std::ofstream & out, std::vector<uint64_t> ext, const char * ev, long & events) {
    constexpr std::size_t N = 2;
    using In = cv::vector_d<std::size_t, N>;
    using A = cb::array<cv::vector_d<float, 1>, I>;
    using RS = cb::strided<In, A>;
    using BL = typename L::template type<In, A>;
    typename RS::configuration_t cfg; cfg[0] = ext[0]; cfg[1] = ext[1];
    covfie::field<RS> rs(covfie::make_parameter_pack(std::move(cfg), typename A::configuration_t{ext[0] * ext[1]}));
    { typename covfie::field<RS>::view_t v(rs); for (std::size_t x = 0; x < ext[0]; ++x) for (std::size_t y = 0; y < ext[1]; ++y) v.at(x, y)[0] = (float)(x * 1000 + y); }
    covfie::field<BL> f(rs);
    uint64_t size = f.backend().get_backend().get_configuration()[0];
    typename covfie::field<BL>::view_t v(f);
    long bad = 0;
    for (std::size_t x = 0; x < ext[0]; ++x) for (std::size_t y = 0; y < ext[1]; ++y) if (v.at(x, y)[0] != (float)(x * 1000 + y)) ++bad;
    ++g_checks;
    if (bad) mismatch(std::string("layout/narrow-index-values/") + L::name, {{"ext", ext}, {"index_bits", sizeof(I) * 8}, {"wrong_cells", bad}});
    for (auto c : std::vector<std::vector<uint64_t>>{{ext[0] - 1, ext[1] - 1}, {0, ext[1] - 1}, {ext[0] - 1, 0}, {ext[0] / 2, ext[1] / 3}}) {
        uint64_t idx = index_of<L, N, std::size_t>(ext, c);
        if (std::string(ev) == "hilbert") out << json({{"e", ev}, {"ext", ext}, {"c", c}, {"d", idx}, {"size", size}}).dump() << "\n";
        else out << json({{"e", ev}, {"ext", ext}, {"c", c}, {"idx", idx}, {"size", size}}).dump() << "\n";
        ++events;
    }
}

static void trace_hilbert_square(rng & r, std::ofstream & out, int k, long samples, long & events) {
    uint64_t n = 1ull << k;
    using BI = cb::hilbert<cv::vector_d<std::size_t, 2>, idb>;
    auto f = make_identity_field<BI, 2>({n, n});
    covfie::field<BI>::view_t v(f);
    std::vector<int64_t> invx(n * n, -1), invy(n * n, -1);
    uint64_t mn = ~0ull, mx = 0, distinct = 0;
    for (uint64_t x = 0; x < n; ++x)
        for (uint64_t y = 0; y < n; ++y) {
            uint64_t d = v.at(x, y)[0];
            mn = std::min(mn, d); mx = std::max(mx, d);
            if (d < n * n) { if (invx[d] < 0) ++distinct; invx[d] = (int64_t)x; invy[d] = (int64_t)y; }
        }
    out << json({{"e", "hcount"}, {"k", k}, {"distinct", distinct}, {"min", mn}, {"max", mx}, {"origin", (uint64_t)v.at(0ul, 0ul)[0]}}).dump() << "\n";
    ++events;
    for (long s = 0; s < samples; ++s) {
        uint64_t d = (s < 3) ? (uint64_t)s : r.below(n * n - 1);
        if (n * n < 2) break;
        if (invx[d] < 0 || invx[d + 1] < 0) continue;   // already visible in hcount
        out << json({{"e", "hwalk"}, {"k", k}, {"d", d}, {"c0", {invx[d], invy[d]}}, {"c1", {invx[d + 1], invy[d + 1]}}}).dump() << "\n";
        ++events;
    }
}

int main(int argc, char ** argv) {
    install_terminate();
    std::string mode = argv[1];
    if (mode == "replay") {
        reg_all();
        auto all_cases = read_ndjson(argv[2]);
        for (auto & c : all_cases) if (c["layout"] == "strided") { auto & m = g_rowmajor[c["ext"].get<std::vector<uint64_t>>()]; for (auto & e : c["box"]) m[e["c"].get<std::vector<uint64_t>>()] = e["idx"].get<uint64_t>(); }
        for (auto & c : all_cases) {
            std::string key = c["layout"].get<std::string>() + "/" + std::to_string(c["ext"].size());
            auto it = g_table.find(key);
            if (it == g_table.end()) continue;   // other part
            ++g_cases;
            for (auto fn : it->second) fn(c);
        }
        summary();
    } else if (mode == "curve") {
        for (auto & c : read_ndjson(argv[2])) {
            ++g_cases;
            if (c["kind"] == "morton") {
                switch (c["c"].size()) {
                    case 1: curve_morton<1>(c); break;
                    case 2: curve_morton<2>(c); break;
                    case 3: curve_morton<3>(c); break;
                    case 4: curve_morton<4>(c); break;
                }
            } else if (c["kind"] == "hilbert") {
                curve_hilbert(c);
            }
        }
        summary();
    } else if (mode == "hugearray") {
        // a row-major field over REAL array storage with more than 2^32 cells (one byte each, 4 GiB): the last row lies beyond
        // the 32-bit range of flat positions; a write there must not show anywhere in the first rows, and must read back
        using A8 = cb::array<cv::vector_d<char, 1>>;
        using RS = cb::strided<cv::vector_d<std::size_t, 2>, A8>;
        const std::size_t e0 = 65537, e1 = 65536;
        covfie::field<RS> f(covfie::make_parameter_pack(typename RS::configuration_t{e0, e1}, typename A8::configuration_t{e0 * e1}));
        typename covfie::field<RS>::view_t v(f);
        long bad = 0;
        for (std::size_t y : {std::size_t(0), std::size_t(5), std::size_t(65535)}) v.at(e0 - 1, y)[0] = (char)(7 + y % 5);
        v.at(std::size_t(32768), std::size_t(1))[0] = 3;                      // flat position 2^31 + 1
        for (std::size_t y : {std::size_t(0), std::size_t(5), std::size_t(65535)}) {
            ++g_checks; if (v.at(e0 - 1, y)[0] != (char)(7 + y % 5)) ++bad;            // read back
            ++g_checks; if (v.at(std::size_t(0), y)[0] != 0) ++bad;                       // position modulo 2^32
            ++g_checks; if (v.at(std::size_t(1), y)[0] != 0) ++bad;
        }
        ++g_checks; if (v.at(std::size_t(32768), std::size_t(1))[0] != 3 || v.at(std::size_t(0), std::size_t(1))[0] != 0) ++bad;
        ++g_cases;
        if (bad) mismatch("layout/row-major-over-2^32-cells-of-real-storage", {{"ext", {e0, e1}}, {"wrong_cells", bad}});
        summary();
    } else if (mode == "trace") {   // trace <seed> <scale> <hk_lo> <hk_hi> <out>
        rng r(std::strtoull(argv[2], nullptr, 10));
        long n = std::atol(argv[3]);
        int hk_lo = std::atoi(argv[4]), hk_hi = std::atoi(argv[5]);
        std::ofstream out(argv[6]);
        long events = 0;
        trace_row<1>(r, out, n, events); trace_row<2>(r, out, n, events); trace_row<3>(r, out, n, events); trace_row<4>(r, out, n, events);
        trace_rowbig<2>(r, out, n / 2 + 1, events); trace_rowbig<3>(r, out, n / 2 + 1, events); trace_rowbig<4>(r, out, n / 4 + 1, events);
        trace_mortonbits<1>(r, out, n, events); trace_mortonbits<2>(r, out, n, events);
        trace_mortonbits<3>(r, out, n, events); trace_mortonbits<4>(r, out, n, events);
        trace_sized<L_morton, 1>(r, out, n / 8 + 1, 3000, "morton", events);
        trace_sized<L_morton, 2>(r, out, n / 8 + 1, 150, "morton", events);
        trace_sized<L_mortonp, 3>(r, out, n / 8 + 1, 40, "morton", events);
        trace_sized<L_mortonp, 4>(r, out, n / 8 + 1, 12, "morton", events);
        trace_sized<L_morton, 3>(r, out, n / 16 + 1, 40, "morton", events);
        trace_sized<L_hilbert, 2>(r, out, n / 4 + 1, 150, "hilbert", events);
        trace_sized_narrow<L_morton, uint8_t>(out, {16, 16}, "morton", events); trace_sized_narrow<L_mortonp, uint8_t>(out, {9, 16}, "morton", events);
        trace_sized_narrow<L_hilbert, uint8_t>(out, {16, 11}, "hilbert", events); trace_sized_narrow<L_morton, uint16_t>(out, {256, 256}, "morton", events);
        trace_sized_narrow<L_mortonp, uint16_t>(out, {200, 129}, "morton", events); trace_sized_narrow<L_hilbert, uint16_t>(out, {256, 3}, "hilbert", events);
        trace_sized_narrow<L_morton, uint32_t>(out, {40, 70}, "morton", events);
        for (int k = hk_lo; k <= hk_hi; ++k) trace_hilbert_square(r, out, k, n, events);
        g_cases = events;
        summary({{"events", events}});
    }
    return 0;
}
