// C10 / C11: clamp and backup (out-of-range default) on rank-space cases emitted by TLC.
// Ranks: -100 / 100 are concretised to the extremes of the coordinate type (and, for floating types, also to
// -inf / +inf); every other rank is the literal small integer.
#include <cmath>
#include <limits>
#include <covfie/core/backend/primitive/array.hpp>
#include <covfie/core/backend/primitive/identity.hpp>
#include <covfie/core/backend/transformer/backup.hpp>
#include <covfie/core/backend/transformer/clamp.hpp>
#include <covfie/core/backend/transformer/linear.hpp>
#include <covfie/core/backend/transformer/nearest_neighbour.hpp>
#include <covfie/core/backend/transformer/strided.hpp>
#include <covfie/core/field.hpp>
#include <sstream>
#include "common.hpp"
#include "probe.hpp"
using namespace vf;
namespace cb = covfie::backend;
namespace cv = covfie::vector;

static std::string g_which = "both";   // "clamp" (C10) or "backup" (C11): a check only executes the layer its property is about
template <typename T> static const char * tname();
template <> const char * tname<std::size_t>() { return "size_t"; }
template <> const char * tname<unsigned>() { return "unsigned"; }
template <> const char * tname<int>() { return "int"; }
template <> const char * tname<long>() { return "long"; }
template <> const char * tname<float>() { return "float"; }
template <> const char * tname<double>() { return "double"; }

// rank -> value.  -200/200: -inf/+inf (floating types only); -100/100: lowest()/max(); other ranks: the literal
// small integer (mode 0) or, for floating types, successive representable values around 0.1 (mode 1: "adjacent"
// means one ulp).  All modes are order-preserving, which is all that clamp / backup can observe.
template <typename T>
static bool concretise(long rank, int mode, T & out) {
    if (rank == -200 || rank == 200) {
        if constexpr (std::is_floating_point_v<T>) { out = rank < 0 ? -std::numeric_limits<T>::infinity() : std::numeric_limits<T>::infinity(); return true; }
        return false;
    }
    if (rank == -100) {
        if (std::is_unsigned_v<T>) return false;   // lowest() == 0 coincides with rank 0: not order-preserving, and covered by rank 0
        out = std::numeric_limits<T>::lowest();
        return true;
    }
    if (rank == 100) { out = std::numeric_limits<T>::max(); return true; }
    if (mode == 1) {
        if constexpr (std::is_floating_point_v<T>) {
            T v = static_cast<T>(0.1);
            for (long i = 0; i < rank; ++i) v = std::nextafter(v, std::numeric_limits<T>::infinity());
            for (long i = 0; i > rank; --i) v = std::nextafter(v, -std::numeric_limits<T>::infinity());
            out = v;
            return true;
        }
        return false;
    }
    if (mode == 2 || mode == 3 || mode == 4) {
        // 64-bit integer coordinates far from zero (order-preserving shifts of the small ranks): just above 2^53, where not every
        // integer is a double any more; just below the type's maximum; just above its minimum
        if constexpr (std::is_integral_v<T> && sizeof(T) == 8) {
            if (rank < -40 || rank > 40) return false;
            if (mode == 2) out = static_cast<T>(9007199254740993ll + rank);
            else if (mode == 3) out = static_cast<T>(std::numeric_limits<T>::max() - 45 + static_cast<T>(rank + 40) - 40);
            else { if (std::is_unsigned_v<T>) return false; out = static_cast<T>(std::numeric_limits<T>::lowest() + 45 + rank); }
            return true;
        }
        return false;
    }
    if (rank < 0 && std::is_unsigned_v<T>) return false;   // does not exist in this type
    out = static_cast<T>(rank);
    return true;
}

template <typename T, std::size_t N>
static void run_case(const json & c, int mode) {
    using V = cv::vector_d<T, N>;
    using P = probe<V, cv::vector_d<float, 2>>;
    using CL = cb::clamp<P>;
    using BK = cb::backup<P>;
    using CI = cb::clamp<cb::identity<V>>;
    const std::string tag = std::string(tname<T>()) + "/N" + std::to_string(N) + (mode == 0 ? "" : mode == 1 ? "/ulp" : mode == 2 ? "/above-2^53" : mode == 3 ? "/near-max" : "/near-min");
    covfie::array::array<T, N> lo, hi, x, want;
    auto jl = c["lo"].get<std::vector<long>>(), jh = c["hi"].get<std::vector<long>>(), jx = c["x"].get<std::vector<long>>(),
         jc = c["clamped"].get<std::vector<long>>();
    for (std::size_t i = 0; i < N; ++i) {
        T a, b, d, e;
        if (!concretise<T>(jl[i], mode, a) || !concretise<T>(jh[i], mode, b) || !concretise<T>(jx[i], mode, d)) return;
        // the clamped value is either a bound or the coordinate itself
        long r = jc[i];
        e = (r == jx[i]) ? d : (r == jl[i] ? a : b);
        lo[i] = a; hi[i] = b; x[i] = d; want[i] = e;
    }
    json ctx = {{"type", tag}, {"lo", jl}, {"hi", jh}, {"x", jx}};
    ++g_cases;
    // ---- C10: clamp over identity: the returned value is the coordinate the backend was asked for
    if (g_which != "backup") {
        covfie::field<CI> f(covfie::make_parameter_pack(typename CI::configuration_t{lo, hi}, std::monostate{}));
        typename covfie::field<CI>::view_t v(f);
        auto r = v.at(x);
        for (std::size_t i = 0; i < N; ++i) expect_eq("clamp/identity/" + tag, (long double)r[i], (long double)want[i], ctx);
        {   // the variadic form of the lookup, at(x0, x1, ...): the arguments must arrive unchanged (64-bit values included)
            auto rv = [&]() { if constexpr (N == 1) return v.at(x[0]); else if constexpr (N == 2) return v.at(x[0], x[1]); else if constexpr (N == 3) return v.at(x[0], x[1], x[2]); else return v.at(x[0], x[1], x[2], x[3]); }();
            for (std::size_t i = 0; i < N; ++i) expect_eq("clamp/identity-variadic-lookup/" + tag, (long double)rv[i], (long double)want[i], ctx);
        }
        {   // a box whose bounds are the same on every axis, built with the broadcasting constructor array(value)
            bool uniform = true;
            for (std::size_t i = 1; i < N; ++i) if (!(lo[i] == lo[0]) || !(hi[i] == hi[0])) uniform = false;
            if (uniform) {
                covfie::array::array<T, N> blo(lo[0]), bhi(hi[0]);
                covfie::field<CI> fb(covfie::make_parameter_pack(typename CI::configuration_t{blo, bhi}, std::monostate{}));
                auto rb = typename covfie::field<CI>::view_t(fb).at(x);
                for (std::size_t i = 0; i < N; ++i) expect_eq("clamp/identity-broadcast-box/" + tag, (long double)rb[i], (long double)want[i], ctx);
            }
        }
        if ((g_cases % 3) == 0) {     // the same box reached through dump + load, and through assignment over a different box
            std::stringstream ss; f.dump(ss);
            covfie::field<CI> fl(ss);
            auto r2 = typename covfie::field<CI>::view_t(fl).at(x);
            for (std::size_t i = 0; i < N; ++i) expect_eq("clamp/identity-after-dump-load/" + tag, (long double)r2[i], (long double)want[i], ctx);
            covfie::field<CI> fa(covfie::make_parameter_pack(typename CI::configuration_t{hi, hi}, std::monostate{}));
            fa = covfie::field<CI>(f);
            auto r3 = typename covfie::field<CI>::view_t(fa).at(x);
            for (std::size_t i = 0; i < N; ++i) expect_eq("clamp/identity-after-move-assignment/" + tag, (long double)r3[i], (long double)want[i], ctx);
            // a view made before its owner is moved elsewhere and the variable given another box: the view keeps ITS box
            covfie::field<CI> own(f);
            typename covfie::field<CI>::view_t lv(own);
            covfie::field<CI> taken(std::move(own));
            own = covfie::field<CI>(covfie::make_parameter_pack(typename CI::configuration_t{hi, hi}, std::monostate{}));
            auto r4 = lv.at(x);
            for (std::size_t i = 0; i < N; ++i) expect_eq("clamp/view-after-owner-moved/" + tag, (long double)r4[i], (long double)want[i], ctx);
        }
    }
    // ---- C10: clamp over the probe: queried coordinate, query count, returned value
    if (g_which != "backup") {
        covfie::field<CL> f(covfie::make_parameter_pack(typename CL::configuration_t{lo, hi}, typename P::configuration_t{0}));
        typename covfie::field<CL>::view_t v(f);
        g_probe.reset();
        auto r = v.at(x);
        expect_eq("clamp/probe-queries/" + tag, g_probe.queries, 1L, ctx);
        for (std::size_t i = 0; i < N; ++i) expect_eq("clamp/probe-coordinate/" + tag, g_probe.last[i], (long double)want[i], ctx);
        long double wc[8];
        for (std::size_t i = 0; i < N; ++i) wc[i] = (long double)want[i];
        for (std::size_t q = 0; q < 2; ++q) expect_eq("clamp/probe-value/" + tag, (double)r[q], (double)probe_value<float>(wc, N, q), ctx);
    }
    // ---- C11: backup over the probe
    if (g_which != "clamp") {
        covfie::array::array<float, 2> def;
        def[0] = -7.5f; def[1] = 123456.f;
        covfie::field<BK> f(covfie::make_parameter_pack(typename BK::configuration_t{lo, hi, def}, typename P::configuration_t{0}));
        typename covfie::field<BK>::view_t v(f);
        g_probe.reset();
        auto r = v.at(x);
        bool inside = c["inside"].get<bool>();
        expect_eq("backup/probe-queries/" + tag, g_probe.queries, inside ? 1L : 0L, ctx);
        {   // variadic form of the lookup and a broadcast-built uniform box, over backup<identity>
            using BI0 = cb::backup<cb::identity<V>>;
            typename BI0::configuration_t bc0; bc0.min = lo; bc0.max = hi;
            for (std::size_t i = 0; i < N; ++i) bc0.default_value[i] = static_cast<T>(i + 1 == N ? 5 : 6);
            covfie::field<BI0> f0(covfie::make_parameter_pack(typename BI0::configuration_t(bc0), std::monostate{}));
            typename covfie::field<BI0>::view_t v0(f0);
            auto rv = [&]() { if constexpr (N == 1) return v0.at(x[0]); else if constexpr (N == 2) return v0.at(x[0], x[1]); else if constexpr (N == 3) return v0.at(x[0], x[1], x[2]); else return v0.at(x[0], x[1], x[2], x[3]); }();
            for (std::size_t i = 0; i < N; ++i) expect_eq("backup/variadic-lookup/" + tag, (long double)rv[i], inside ? (long double)x[i] : (long double)bc0.default_value[i], ctx);
            bool uniform = true;
            for (std::size_t i = 1; i < N; ++i) if (!(lo[i] == lo[0]) || !(hi[i] == hi[0])) uniform = false;
            if (uniform) {
                typename BI0::configuration_t bb; bb.min = covfie::array::array<T, N>(lo[0]); bb.max = covfie::array::array<T, N>(hi[0]); bb.default_value = covfie::array::array<T, N>(static_cast<T>(9));
                covfie::field<BI0> fb(covfie::make_parameter_pack(typename BI0::configuration_t(bb), std::monostate{}));
                auto rb = typename covfie::field<BI0>::view_t(fb).at(x);
                for (std::size_t i = 0; i < N; ++i) expect_eq("backup/broadcast-box/" + tag, (long double)rb[i], inside ? (long double)x[i] : (long double)9, ctx);
            }
        }
        if ((g_cases % 3) == 0) {     // the same configuration reached through dump + load and through assignment (backup over identity)
            using BI = cb::backup<cb::identity<V>>;
            typename BI::configuration_t bc; bc.min = lo; bc.max = hi;
            for (std::size_t i = 0; i < N; ++i) bc.default_value[i] = static_cast<T>(i + 1 == N ? 5 : 6);
            covfie::field<BI> fi(covfie::make_parameter_pack(typename BI::configuration_t(bc), std::monostate{}));
            std::stringstream ss; fi.dump(ss);
            covfie::field<BI> fl(ss);
            typename BI::configuration_t other = bc; for (std::size_t i = 0; i < N; ++i) other.default_value[i] = static_cast<T>(1);
            covfie::field<BI> fa(covfie::make_parameter_pack(typename BI::configuration_t(other), std::monostate{}));
            fa = covfie::field<BI>(fi);
            {   // a view made before its owner is moved elsewhere and the variable given another configuration
                covfie::field<BI> own(fi);
                typename covfie::field<BI>::view_t lv(own);
                covfie::field<BI> taken(std::move(own));
                typename BI::configuration_t shifted = other; shifted.min = hi; shifted.max = hi;
                own = covfie::field<BI>(covfie::make_parameter_pack(typename BI::configuration_t(shifted), std::monostate{}));
                auto rr = lv.at(x);
                for (std::size_t i = 0; i < N; ++i)
                    expect_eq("backup/view-after-owner-moved/" + tag, (long double)rr[i], inside ? (long double)x[i] : (long double)bc.default_value[i], ctx);
            }
            for (auto * fld : {&fl, &fa}) {
                auto rr = typename covfie::field<BI>::view_t(*fld).at(x);
                for (std::size_t i = 0; i < N; ++i)
                    expect_eq(std::string(fld == &fl ? "backup/after-dump-load/" : "backup/after-move-assignment/") + tag, (long double)rr[i],
                              inside ? (long double)x[i] : (long double)bc.default_value[i], ctx);
            }
        }
        if (inside) {
            long double wc[8];
            for (std::size_t i = 0; i < N; ++i) { wc[i] = (long double)x[i]; expect_eq("backup/probe-coordinate/" + tag, g_probe.last[i], wc[i], ctx); }
            for (std::size_t q = 0; q < 2; ++q) expect_eq("backup/backend-value/" + tag, (double)r[q], (double)probe_value<float>(wc, N, q), ctx);
        } else {
            expect_eq("backup/default/" + tag, (double)r[0], -7.5, ctx);
            expect_eq("backup/default/" + tag, (double)r[1], 123456.0, ctx);
        }
    }
}

template <typename T>
static void run_types(const json & c) {
    switch (c["n"].get<int>()) {
        case 1: run_case<T, 1>(c, 0); if (std::is_floating_point_v<T>) run_case<T, 1>(c, 1); if (std::is_integral_v<T> && sizeof(T) == 8) { run_case<T, 1>(c, 2); run_case<T, 1>(c, 3); run_case<T, 1>(c, 4); } break;
        case 2: run_case<T, 2>(c, 0); if (std::is_floating_point_v<T>) run_case<T, 2>(c, 1); if (std::is_integral_v<T> && sizeof(T) == 8) { run_case<T, 2>(c, 2); run_case<T, 2>(c, 3); run_case<T, 2>(c, 4); } break;
        case 3: run_case<T, 3>(c, 0); if (std::is_floating_point_v<T>) run_case<T, 3>(c, 1); if (std::is_integral_v<T> && sizeof(T) == 8) { run_case<T, 3>(c, 2); run_case<T, 3>(c, 3); run_case<T, 3>(c, 4); } break;
        case 4: run_case<T, 4>(c, 0); if (std::is_floating_point_v<T>) run_case<T, 4>(c, 1); if (std::is_integral_v<T> && sizeof(T) == 8) { run_case<T, 4>(c, 2); run_case<T, 4>(c, 3); run_case<T, 4>(c, 4); } break;
    }
}

// ---- memory safety with array-backed storage: box inside the domain of what lies beneath, any coordinate
template <typename T> static std::vector<T> wild_values() {
    std::vector<T> v = {std::numeric_limits<T>::lowest(), std::numeric_limits<T>::max(), T(0), T(1), T(2), T(3), T(4), T(5), T(7), T(1000)};
    if constexpr (std::is_signed_v<T>) { v.push_back(T(-1)); v.push_back(T(-1000)); }
    if constexpr (std::is_floating_point_v<T>) {
        v.push_back(std::numeric_limits<T>::infinity()); v.push_back(-std::numeric_limits<T>::infinity());
        v.push_back(T(0.5)); v.push_back(T(2.999)); v.push_back(std::nextafter(T(3), T(0))); v.push_back(T(1e30)); v.push_back(T(-1e30));
    }
    return v;
}

template <typename CoordT>
static void storage_safety_int() {
    // clamp<strided<CoordT x2, array<float1>>> and linear<clamp<strided>> (clamp beneath the interpolator)
    using A = cb::array<cv::vector_d<float, 1>>;
    using S = cb::strided<cv::vector_d<CoordT, 2>, A>;
    using C = cb::clamp<S>;
    using LC = cb::linear<C, cv::vector_d<float, 2>>;
    const CoordT ex = 4, ey = 3;
    covfie::field<S> base(covfie::make_parameter_pack(typename S::configuration_t{(std::size_t)ex, (std::size_t)ey}, typename A::configuration_t{12ul}));
    { typename covfie::field<S>::view_t bv(base); for (CoordT a = 0; a < ex; ++a) for (CoordT b = 0; b < ey; ++b) bv.at(a, b)[0] = float(10 * a + b); }
    typename C::configuration_t box{{CoordT(0), CoordT(0)}, {CoordT(ex - 1), CoordT(ey - 1)}};
    covfie::field<C> f(covfie::make_parameter_pack(typename C::configuration_t(box), typename S::configuration_t{(std::size_t)ex, (std::size_t)ey},
                                                   typename A::owning_data_t(base.backend().get_backend())));
    typename covfie::field<C>::view_t v(f);
    auto clampv = [](CoordT x, CoordT lo, CoordT hi) { return x < lo ? lo : (hi < x ? hi : x); };
    for (CoordT a : wild_values<CoordT>())
        for (CoordT b : wild_values<CoordT>()) {
            ++g_cases;
            float got = v.at(a, b)[0];
            float want = float(10 * clampv(a, 0, ex - 1) + clampv(b, 0, ey - 1));
            expect_eq(std::string("clamp/array-storage/") + tname<CoordT>(), (double)got, (double)want, {{"x", {(long double)a, (long double)b}}});
        }
    covfie::field<LC> lf(covfie::make_parameter_pack(std::monostate{}, typename C::configuration_t(box), typename S::configuration_t{(std::size_t)ex, (std::size_t)ey},
                                                     typename A::owning_data_t(base.backend().get_backend())));
    typename covfie::field<LC>::view_t lv(lf);
    for (float a : {0.f, 0.5f, 2.5f, 3.f, 3.5f, 10.f, 1000.f})
        for (float b : {0.f, 1.25f, 2.f, 2.75f, 50.f}) {
            ++g_cases; ++g_checks;
            volatile float got = lv.at(a, b)[0];   // any x_k >= 0 is in the domain when a clamp lies beneath
            (void)got;
        }
}

template <typename CoordT>
static void storage_safety_real() {
    // clamp above the interpolator: box inside the interpolator's domain [0, extent-1)
    using A = cb::array<cv::vector_d<float, 1>>;
    using S = cb::strided<cv::vector_d<std::size_t, 2>, A>;
    using L = cb::linear<S, cv::vector_d<CoordT, 2>>;
    using NN = cb::nearest_neighbour<S, cv::vector_d<CoordT, 2>>;
    using CLn = cb::clamp<L>;
    using CNN = cb::clamp<NN>;
    covfie::field<S> base(covfie::make_parameter_pack(typename S::configuration_t{4ul, 3ul}, typename A::configuration_t{12ul}));
    { typename covfie::field<S>::view_t bv(base); for (std::size_t a = 0; a < 4; ++a) for (std::size_t b = 0; b < 3; ++b) bv.at(a, b)[0] = float(10 * a + b); }
    typename CLn::configuration_t box{{CoordT(0), CoordT(0)}, {CoordT(2.5), CoordT(1.5)}};
    covfie::field<CLn> f(covfie::make_parameter_pack(typename CLn::configuration_t(box), std::monostate{}, typename S::configuration_t{4ul, 3ul},
                                                     typename A::owning_data_t(base.backend().get_backend())));
    typename covfie::field<CLn>::view_t v(f);
    typename CNN::configuration_t nbox{{CoordT(0), CoordT(0)}, {CoordT(3), CoordT(2)}};
    covfie::field<CNN> g(covfie::make_parameter_pack(typename CNN::configuration_t(nbox), std::monostate{}, typename S::configuration_t{4ul, 3ul},
                                                     typename A::owning_data_t(base.backend().get_backend())));
    typename covfie::field<CNN>::view_t w(g);
    auto clampv = [](CoordT x, CoordT lo, CoordT hi) { return x < lo ? lo : (hi < x ? hi : x); };
    for (CoordT a : wild_values<CoordT>())
        for (CoordT b : wild_values<CoordT>()) {
            ++g_cases;
            CoordT ca = clampv(a, 0, CoordT(2.5)), cb_ = clampv(b, 0, CoordT(1.5));
            float got = v.at(a, b)[0];
            float direct = covfie::field_view<L>(covfie::field<L>(covfie::make_parameter_pack(std::monostate{}, typename S::configuration_t{4ul, 3ul},
                               typename A::owning_data_t(base.backend().get_backend())))).at(ca, cb_)[0];
            expect_eq(std::string("clamp/above-linear/") + tname<CoordT>(), (double)got, (double)direct, {{"x", {(long double)a, (long double)b}}});
            CoordT na = clampv(a, 0, CoordT(3)), nb = clampv(b, 0, CoordT(2));
            float gotn = w.at(a, b)[0];
            float wantn = float(10 * std::lrint(na) + std::lrint(nb));
            if (na - std::floor(na) != CoordT(0.5) && nb - std::floor(nb) != CoordT(0.5))
                expect_eq(std::string("clamp/above-nearest/") + tname<CoordT>(), (double)gotn, (double)wantn, {{"x", {(long double)a, (long double)b}}});
        }
}

// ---- code -> spec: random boxes and coordinates (incl. extremes, infinities, 1-ulp neighbours of the bounds); each axis is
// abstracted to its ORDER relation with the box by exact comparisons, which is all clamp / backup can observe
template <typename T> static T random_value(rng & r) {
    switch (r.below(8)) {
        case 0: return std::numeric_limits<T>::lowest();
        case 1: return std::numeric_limits<T>::max();
        case 2: if constexpr (std::is_floating_point_v<T>) return r.below(2) ? std::numeric_limits<T>::infinity() : -std::numeric_limits<T>::infinity(); else return T(0);
        case 3: return T(r.below(5));
        case 4: if constexpr (std::is_floating_point_v<T>) return (T)((double)r.below(1u << 20) / 1024.0 - 300.0); else if constexpr (std::is_signed_v<T>) return (T)((long)r.below(2000) - 1000); else return (T)r.below(2000);
        default: if constexpr (std::is_floating_point_v<T>) return std::ldexp((T)((long)r.below(2000) - 1000), (int)r.below(60) - 30); else return (T)(r.next() >> (r.below(60)));
    }
}
template <typename T> static T nudge(T v, rng & r) {   // v itself or a neighbour one step away
    int k = (int)r.below(3);
    if (k == 0) return v;
    if constexpr (std::is_floating_point_v<T>) return std::nextafter(v, k == 1 ? std::numeric_limits<T>::infinity() : -std::numeric_limits<T>::infinity());
    else { if (k == 1) return v == std::numeric_limits<T>::max() ? v : (T)(v + 1); return v == std::numeric_limits<T>::lowest() ? v : (T)(v - 1); }
}
template <typename T> static std::string relation(T x, T lo, T hi) {
    if (x < lo) return "below";
    if (x > hi) return "above";
    if (lo == hi) return "lohi";
    if (x == lo) return "lo";
    if (x == hi) return "hi";
    return "in";
}
template <typename T, std::size_t N>
static void trace_box(rng & r, std::ofstream & out, long n, long & events) {
    using V = cv::vector_d<T, N>;
    using P = probe<V, cv::vector_d<float, 2>>;
    using CI = cb::clamp<cb::identity<V>>;
    using BK = cb::backup<P>;
    for (long q = 0; q < n; ++q) {
        covfie::array::array<T, N> lo, hi, x;
        std::vector<std::string> rel; std::vector<int> deg;
        for (std::size_t i = 0; i < N; ++i) {
            T a = random_value<T>(r), b = r.below(6) == 0 ? T(0) : random_value<T>(r);
            if (r.below(6) == 0) b = a;
            if (b < a) std::swap(a, b);
            if constexpr (std::is_floating_point_v<T>) { if (std::isinf(a) && a > 0) a = std::numeric_limits<T>::max(); }
            lo[i] = a; hi[i] = b;
            x[i] = r.below(3) == 0 ? random_value<T>(r) : nudge<T>(r.below(2) ? a : b, r);
            if constexpr (std::is_integral_v<T> && sizeof(T) == 8) {          // a value that equals an in-box value modulo 2^32
                if (r.below(5) == 0) { T alias = (T)((unsigned long long)a + ((unsigned long long)(1 + r.below(7)) << 32)); x[i] = alias; }
            }
            rel.push_back(relation<T>(x[i], a, b)); deg.push_back(a == b);
        }
        if (g_which != "backup") {
            covfie::field<CI> fc(covfie::make_parameter_pack(typename CI::configuration_t{lo, hi}, std::monostate{}));
            auto rc = typename covfie::field<CI>::view_t(fc).at(x);
            std::vector<int> eqlo, eqhi, eqx;
            for (std::size_t i = 0; i < N; ++i) { eqlo.push_back(rc[i] == lo[i]); eqhi.push_back(rc[i] == hi[i]); eqx.push_back(rc[i] == x[i]); }
            out << json({{"e", "clampbox"}, {"type", tname<T>()}, {"rel", rel}, {"deg", deg}, {"eqlo", eqlo}, {"eqhi", eqhi}, {"eqx", eqx}}).dump() << "\n";
        }
        if (g_which == "clamp") { ++events; continue; }
        covfie::array::array<float, 2> def; def[0] = -7.5f; def[1] = 123456.f;
        covfie::field<BK> fb(covfie::make_parameter_pack(typename BK::configuration_t{lo, hi, def}, typename P::configuration_t{0}));
        g_probe.reset();
        auto rb = typename covfie::field<BK>::view_t(fb).at(x);
        bool is_default = rb[0] == -7.5f && rb[1] == 123456.f;
        bool same_coord = true; for (std::size_t i = 0; i < N; ++i) if (g_probe.queries && g_probe.last[i] != (long double)x[i]) same_coord = false;
        out << json({{"e", "backupbox"}, {"type", tname<T>()}, {"rel", rel}, {"deg", deg}, {"is_default", is_default},
                     {"queries", g_probe.queries}, {"queried_at_x", same_coord}}).dump() << "\n";
        ++events;
        ++events;
    }
}

int main(int argc, char ** argv) {
    install_terminate();
    std::string mode = argv[1];
    if (mode == "trace") {
        rng r(std::strtoull(argv[2], nullptr, 10));
        long n = std::atol(argv[3]);
        std::ofstream out(argv[4]);
        if (argc > 5) g_which = argv[5];
        long events = 0;
        trace_box<int, 1>(r, out, n, events); trace_box<unsigned, 2>(r, out, n, events); trace_box<std::size_t, 3>(r, out, n, events);
        trace_box<float, 1>(r, out, n, events); trace_box<float, 4>(r, out, n, events); trace_box<double, 2>(r, out, n, events); trace_box<double, 3>(r, out, n, events);
        trace_box<int, 4>(r, out, n, events); trace_box<long, 2>(r, out, n, events); trace_box<long, 1>(r, out, n, events);
        g_cases = events;
        summary({{"events", events}});
        return 0;
    }
    if (mode == "replay") {
        if (argc > 3) g_which = argv[3];
        for (auto & c : read_ndjson(argv[2])) {
            run_types<int>(c); run_types<unsigned>(c); run_types<std::size_t>(c); run_types<float>(c); run_types<double>(c);
        }
        if (g_which != "backup") {
            storage_safety_int<int>(); storage_safety_int<unsigned>(); storage_safety_int<std::size_t>();
            storage_safety_real<float>(); storage_safety_real<double>();
        }
        summary();
    }
    return 0;
}
