// C05 / C13 (reduced assurance): the CUDA device-array backend compiled against a HOST shim of the CUDA runtime
// (harness/cuda_shim): host array -> device array -> host array conversions for every TLC-enumerated extent vector
// (N = 1..3), copy / move / assignment of device-array fields, dump and load, live "device" allocations.
#include <sstream>
#include <covfie/core/backend/primitive/array.hpp>
#include <covfie/core/backend/transformer/strided.hpp>
#include <covfie/core/field.hpp>
#include <covfie/cuda/backend/primitive/cuda_device_array.hpp>
#include "common.hpp"
using namespace vf;
namespace cb = covfie::backend;
namespace cv = covfie::vector;

template <std::size_t N, typename S, std::size_t M>
static void run_ext(const std::vector<std::size_t> & ext) {
    using In = cv::vector_d<std::size_t, N>;
    using H = cb::strided<In, cb::array<cv::vector_d<S, M>>>;
    using D = cb::strided<In, cb::cuda_device_array<cv::vector_d<S, M>>>;
    static_assert(covfie::concepts::field_backend<D>, "device-array stack must satisfy the backend concept");
    static_assert(std::is_trivially_copyable_v<typename covfie::field<D>::view_t>);
    json ctx = {{"ext", ext}, {"N", N}, {"M", M}};
    typename H::configuration_t cfg; std::size_t prod = 1;
    for (std::size_t k = 0; k < N; ++k) { cfg[k] = ext[k]; prod *= ext[k]; }
    long before = vf_cuda_live();
    {
        covfie::field<H> h(covfie::make_parameter_pack(std::move(cfg), typename H::backend_t::configuration_t{prod}));
        typename covfie::field<H>::view_t hv(h);
        auto coord = [&](std::size_t cell) { covfie::array::array<std::size_t, N> c; for (std::size_t k = N; k-- > 0;) { c[k] = cell % ext[k]; cell /= ext[k]; } return c; };
        for (std::size_t cell = 0; cell < prod; ++cell) for (std::size_t q = 0; q < M; ++q) hv.at(coord(cell))[q] = (S)(cell * 4 + q + 1);
        auto bad = [&](auto & f) { typename std::decay_t<decltype(f)>::view_t v(f); long b = 0; for (std::size_t cell = 0; cell < prod; ++cell) for (std::size_t q = 0; q < M; ++q) if ((double)v.at(coord(cell))[q] != (double)(cell * 4 + q + 1)) ++b; return b; };
        covfie::field<D> d(h);                          // host -> device
        expect_eq("cuda-shim/host-to-device/values", bad(d), 0L, ctx);
        bool same = true; for (std::size_t k = 0; k < N; ++k) if (d.backend().get_configuration()[k] != ext[k]) same = false;
        expect_eq("cuda-shim/host-to-device/configuration", same && d.backend().get_backend().get_configuration()[0] == prod, true, ctx);
        covfie::field<H> back(d);                       // device -> host
        expect_eq("cuda-shim/device-to-host/values", bad(back), 0L, ctx);
        expect_eq("cuda-shim/source-unchanged", bad(h) + bad(d), 0L, ctx);
        covfie::field<D> c1(d);                         // copy / move / assign on the device side
        covfie::field<D> c2(std::move(c1));
        covfie::field<D> c3(h);
        c3 = c2; c3 = c3;
        covfie::field<D> c4(h);
        c4 = std::move(c3);
        expect_eq("cuda-shim/copy-move-assign/values", bad(c2) + bad(c4), 0L, ctx);
        std::stringstream ss; d.dump(ss);
        covfie::field<D> l(ss);
        expect_eq("cuda-shim/dump-load/values", bad(l), 0L, ctx);
    }
    expect_eq("cuda-shim/device-allocations-leaked", vf_cuda_live() - before, 0L, ctx);
}

int main(int argc, char ** argv) {
    install_terminate();
    for (auto & c : read_ndjson(argv[1])) {
        if (c["layout"] != "strided") continue;
        auto ext = c["ext"].get<std::vector<std::size_t>>();
        ++g_cases;
        if (ext.size() == 1) { run_ext<1, float, 1>(ext); run_ext<1, double, 3>(ext); }
        else if (ext.size() == 2) { run_ext<2, float, 2>(ext); run_ext<2, double, 1>(ext); }
        else if (ext.size() == 3) { run_ext<3, float, 3>(ext); }
    }
    summary();
    return 0;
}
