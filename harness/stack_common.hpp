// Support code for the translation units generated from TLC-emitted stack descriptors (lib/gen_stack.py).
#pragma once
#include <cstring>
#include <new>
#include <cstdio>
#include <sstream>
#include <string>
#include <type_traits>
#include <vector>
#include <covfie/core/backend/primitive/array.hpp>
#include <covfie/core/backend/primitive/constant.hpp>
#include <covfie/core/backend/primitive/identity.hpp>
#include <covfie/core/backend/transformer/affine.hpp>
#include <covfie/core/backend/transformer/backup.hpp>
#include <covfie/core/backend/transformer/clamp.hpp>
#include <covfie/core/backend/transformer/covariant_cast.hpp>
#include <covfie/core/backend/transformer/dereference.hpp>
#include <covfie/core/backend/transformer/hilbert.hpp>
#include <covfie/core/backend/transformer/linear.hpp>
#include <covfie/core/backend/transformer/morton.hpp>
#include <covfie/core/backend/transformer/nearest_neighbour.hpp>
#include <covfie/core/backend/transformer/shuffle.hpp>
#include <covfie/core/backend/transformer/strided.hpp>
#include <covfie/core/field.hpp>

namespace cb = covfie::backend;
namespace cv = covfie::vector;

namespace vs {
inline long g_checks = 0, g_bad = 0;
inline void mismatch(const char * key, const std::string & detail) {
    ++g_bad;
    if (g_bad <= 12) std::printf("MISMATCH %s {\"stack\":\"%s\",%s}\n", key, VF_STACK_NAME, detail.c_str());
}
inline std::string vec(const std::vector<double> & v) { std::string s = "["; for (std::size_t i = 0; i < v.size(); ++i) { char b[64]; std::snprintf(b, 64, "%s%.17g", i ? "," : "", v[i]); s += b; } return s + "]"; }
inline void check(bool ok, const char * key, const std::string & detail) { ++g_checks; if (!ok) mismatch(key, detail); }

template <typename L> typename L::configuration_t clamp_cfg(std::vector<long> lo, std::vector<long> hi) {
    typename L::configuration_t c;
    using sc = typename L::contravariant_input_t::scalar_t;
    for (std::size_t i = 0; i < lo.size(); ++i) { c.min[i] = static_cast<sc>(lo[i]); c.max[i] = static_cast<sc>(hi[i]); }
    return c;
}
template <typename L> typename L::configuration_t backup_cfg(std::vector<long> lo, std::vector<long> hi, std::vector<long> d) {
    typename L::configuration_t c;
    using sc = typename L::contravariant_input_t::scalar_t;
    using so = typename L::covariant_output_t::scalar_t;
    for (std::size_t i = 0; i < lo.size(); ++i) { c.min[i] = static_cast<sc>(lo[i]); c.max[i] = static_cast<sc>(hi[i]); }
    for (std::size_t q = 0; q < d.size(); ++q) c.default_value[q] = static_cast<so>(d[q]);
    return c;
}
template <typename L> typename L::configuration_t affine_cfg(std::vector<std::vector<long>> A) {
    typename L::configuration_t m;
    using sc = typename L::contravariant_input_t::scalar_t;
    for (std::size_t i = 0; i < A.size(); ++i) for (std::size_t j = 0; j < A[i].size(); ++j) m(i, j) = static_cast<sc>(A[i][j]);
    return m;
}
template <typename L> typename L::configuration_t sizes_cfg(std::vector<long> e) {
    typename L::configuration_t c; for (std::size_t i = 0; i < e.size(); ++i) c[i] = (std::size_t)e[i]; return c;
}
template <typename L> typename L::configuration_t const_cfg(std::vector<long> v) {
    typename L::configuration_t c; using so = typename L::covariant_output_t::scalar_t;
    for (std::size_t q = 0; q < v.size(); ++q) c[q] = static_cast<so>(v[q]); return c;
}

// comparison of configurations as reported by get_configuration()
template <typename C> bool same_clamp(const C & c, std::vector<long> lo, std::vector<long> hi) {
    for (std::size_t i = 0; i < lo.size(); ++i) if ((double)c.min[i] != (double)lo[i] || (double)c.max[i] != (double)hi[i]) return false; return true; }
template <typename C> bool same_backup(const C & c, std::vector<long> lo, std::vector<long> hi, std::vector<long> d) {
    for (std::size_t i = 0; i < lo.size(); ++i) if ((double)c.min[i] != (double)lo[i] || (double)c.max[i] != (double)hi[i]) return false;
    for (std::size_t q = 0; q < d.size(); ++q) if ((double)c.default_value[q] != (double)d[q]) return false; return true; }
template <typename C> bool same_affine(const C & c, std::vector<std::vector<long>> A) {
    for (std::size_t i = 0; i < A.size(); ++i) for (std::size_t j = 0; j < A[i].size(); ++j) if ((double)c(i, j) != (double)A[i][j]) return false; return true; }
template <typename C> bool same_sizes(const C & c, std::vector<long> e) { for (std::size_t i = 0; i < e.size(); ++i) if ((long)c[i] != e[i]) return false; return true; }
template <typename C> bool same_const(const C & c, std::vector<long> v) { for (std::size_t q = 0; q < v.size(); ++q) if ((double)c[q] != (double)v[q]) return false; return true; }

// the stored field of spec/Stack.tla: Stored(c, q) = 10 * sum_k ((k+2) c_k^2 + c_k) + q   (k, q 1-based)
template <std::size_t N> long stored(const covfie::array::array<std::size_t, N> & c, std::size_t q) {
    long s = 0; for (std::size_t k = 0; k < N; ++k) s += (long)(k + 3) * (long)c[k] * (long)c[k] + (long)c[k]; return 10 * s + (long)q + 1; }

// fill the array beneath a storage-order layer through that layer's own view, at logical coordinates
template <typename LayoutB, typename O> void fill_through(const O & owning) {
    constexpr std::size_t N = LayoutB::contravariant_input_t::dimensions;
    constexpr std::size_t M = LayoutB::covariant_output_t::dimensions;
    typename LayoutB::non_owning_data_t v(owning);
    auto ext = owning.get_configuration();
    std::size_t total = 1; for (std::size_t k = 0; k < N; ++k) total *= ext[k];
    for (std::size_t cell = 0; cell < total; ++cell) {
        covfie::array::array<std::size_t, N> c; std::size_t r = cell;
        for (std::size_t k = 0; k < N; ++k) { c[k] = r % ext[k]; r /= ext[k]; }
        typename LayoutB::contravariant_input_t::vector_t cc;
        for (std::size_t k = 0; k < N; ++k) cc[k] = static_cast<typename LayoutB::contravariant_input_t::scalar_t>(c[k]);
        for (std::size_t q = 0; q < M; ++q) v.at(cc)[q] = static_cast<typename LayoutB::covariant_output_t::scalar_t>(stored<N>(c, q));
    }
}

template <typename F, typename X> std::vector<double> look(const F & f, const X & x) {
    typename F::view_t v(f);
    auto r = v.at(x);
    std::vector<double> o;
    for (std::size_t q = 0; q < F::backend_t::covariant_output_t::dimensions; ++q) o.push_back((double)r[q]);
    return o;
}
}
