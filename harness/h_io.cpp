// C06 / C07 / C08: binary IO.  The catalogue below mirrors spec/BinCatalogue.tla (same order).
//   roundtrip <cases>                 instances + cross-type loads emitted by TLC (byte-exact streams, layer values)
//   faults <cases> <faultcases> [stride offset]   every fault enumerated by TLC, each load in a forked child
//   golden-write <cases> <dir>        write one file per catalogue type (value set 1)
//   golden-check <manifest> <dir> <out>   load / re-dump golden files, emit their limbs for TLC
#include <csignal>
#include <cstring>
#include <map>
#include <sstream>
#include <streambuf>
#include <sys/wait.h>
#include <tuple>
#include <unistd.h>
#include <covfie/core/algebra/affine.hpp>
#include <covfie/core/backend/primitive/array.hpp>
#include <covfie/core/backend/primitive/constant.hpp>
#include <covfie/core/backend/primitive/identity.hpp>
#include <covfie/core/backend/transformer/affine.hpp>
#include <covfie/core/backend/transformer/backup.hpp>
#include <covfie/core/backend/transformer/clamp.hpp>
#include <covfie/core/backend/transformer/covariant_cast.hpp>
#include <covfie/core/backend/transformer/dereference.hpp>
#include <covfie/core/backend/transformer/hilbert.hpp>
#include <covfie/core/backend/transformer/linear.hpp>
#include <covfie/core/backend/transformer/morton.hpp>
#include <covfie/core/backend/transformer/nearest_neighbour.hpp>
#include <covfie/core/backend/transformer/shuffle.hpp>
#include <covfie/core/backend/transformer/strided.hpp>
#include <covfie/core/field.hpp>
#include "common.hpp"
using namespace vf;
namespace cb = covfie::backend;
namespace cv = covfie::vector;
using limbs_t = std::vector<unsigned>;

template <std::size_t N> using sz = cv::vector_d<std::size_t, N>;
template <typename S, std::size_t M> using arr = cb::array<cv::vector_d<S, M>>;
using T1 = arr<float, 1>;
using T2 = arr<double, 3>;
using T3 = cb::strided<sz<2>, arr<float, 1>>;
using T4 = cb::strided<sz<2>, arr<double, 1>>;
using T5 = cb::affine<cb::nearest_neighbour<cb::strided<sz<3>, arr<float, 3>>>>;
using T6 = cb::affine<cb::linear<cb::strided<sz<3>, arr<float, 3>>>>;
using T7 = cb::affine<cb::linear<cb::strided<sz<3>, arr<double, 3>>>>;
using T8 = cb::morton<sz<2>, arr<float, 2>>;
#ifndef VF_PINNED
using T9 = cb::hilbert<sz<2>, arr<double, 1>>;
#else   // the pinned revision cannot compile these layers' lookups / serialisers: placeholders, never written
using T9 = arr<float, 1>;
#endif
using T10 = cb::clamp<cb::strided<sz<2>, arr<float, 1>>>;
using T11 = cb::backup<cb::strided<sz<2>, arr<float, 1>>>;
#ifndef VF_PINNED
using T12 = cb::constant<cv::float1, cv::float3>;
using T13 = cb::identity<cv::float2>;
using T14 = cb::covariant_cast<double, cb::constant<cv::float1, cv::float3>>;
using T15 = cb::dereference<cb::strided<sz<1>, arr<float, 2>>>;
#else
using T12 = arr<float, 1>; using T13 = cb::identity<cv::float2>; using T14 = arr<float, 1>; using T15 = arr<float, 1>;
#endif
using T16 = cb::shuffle<cb::strided<sz<2>, arr<float, 1>>, std::index_sequence<1, 0>>;
using T17 = cb::clamp<cb::affine<cb::linear<cb::morton<sz<2>, arr<float, 2>>>>>;
using T18 = cb::clamp<cb::affine<cb::nearest_neighbour<cb::morton<sz<2>, arr<double, 2>>>>>;
using T19 = cb::affine<cb::nearest_neighbour<cb::strided<sz<1>, arr<double, 1>>, cv::vector_d<double, 1>>>;
using T20 = cb::backup<cb::linear<cb::strided<sz<1>, arr<float, 2>>>>;
using T21 = cb::affine<cb::nearest_neighbour<cb::strided<sz<3>, arr<float, 1>>, cv::vector_d<double, 3>>>;   // 96-byte configuration
using T22 = cb::affine<cb::linear<cb::strided<sz<4>, arr<float, 1>>>>;                                       // 80-byte configuration
using catalogue = std::tuple<T1, T2, T3, T4, T5, T6, T7, T8, T9, T10, T11, T12, T13, T14, T15, T16, T17, T18, T19, T20, T21, T22>;
constexpr std::size_t NTYPES = std::tuple_size_v<catalogue>;

// ------------------------------------------------------------------ bytes <-> limbs
static limbs_t to_limbs(const void * p, std::size_t n) {
    limbs_t o; const unsigned char * b = (const unsigned char *)p;
    for (std::size_t i = 0; i + 1 < n + 1 && i < n; i += 2) o.push_back((unsigned)b[i] | ((unsigned)(i + 1 < n ? b[i + 1] : 0) << 8));
    return o;
}
static std::string to_bytes(const limbs_t & l) { std::string s; for (auto x : l) { s.push_back((char)(x & 0xFF)); s.push_back((char)(x >> 8)); } return s; }
template <typename T> static void from_limbs(T & out, const json & l, std::size_t off = 0) {
    std::string b = to_bytes(l.get<limbs_t>());
    if (off + sizeof(T) > b.size()) { std::cerr << "cfg size mismatch\n"; std::exit(3); }
    std::memcpy(&out, b.data() + off, sizeof(T));
}

// ------------------------------------------------------------------ per-layer configuration conversion
template <typename B> struct is_backup : std::false_type {};
template <typename X> struct is_backup<cb::backup<X>> : std::true_type {};
template <typename B> struct is_affine : std::false_type {};
template <typename X> struct is_affine<cb::affine<X>> : std::true_type {};
template <typename B> struct is_array : std::false_type {};
template <typename V, typename I> struct is_array<cb::array<V, I>> : std::true_type {};

template <typename B>
static typename B::configuration_t cfg_from(const json & layer) {
    typename B::configuration_t c{};
    if constexpr (std::is_same_v<typename B::configuration_t, std::monostate>) {
    } else if constexpr (is_array<B>::value) {
        c[0] = layer["count"].get<std::size_t>();
    } else if constexpr (is_backup<B>::value) {
        from_limbs(c.min, layer["cfg"], 0); from_limbs(c.max, layer["cfg"], sizeof(c.min)); from_limbs(c.default_value, layer["cfg"], 2 * sizeof(c.min));
    } else if constexpr (is_affine<B>::value) {
        // the format stores the N x (N+1) matrix row by row; entries are set and read through the matrix's element accessor, not
        // through its object representation (whose layout is the library's private business)
        using S = typename B::contravariant_input_t::scalar_t;
        constexpr std::size_t N = B::contravariant_input_t::dimensions;
        covfie::array::array<covfie::array::array<S, N + 1>, N> m;
        for (std::size_t i = 0; i < N; ++i) for (std::size_t j = 0; j <= N; ++j) { S x; from_limbs(x, layer["cfg"], (i * (N + 1) + j) * sizeof(S)); m[i][j] = x; }
        c = typename B::configuration_t(covfie::algebra::matrix<N, N + 1, S>(m));
    } else {
        from_limbs(c, layer["cfg"]);
    }
    return c;
}
template <typename B>
static limbs_t cfg_to(const typename B::configuration_t & c) {
    if constexpr (std::is_same_v<typename B::configuration_t, std::monostate>) return {};
    else if constexpr (is_backup<B>::value) {
        limbs_t a = to_limbs(&c.min, sizeof(c.min)), b = to_limbs(&c.max, sizeof(c.max)), d = to_limbs(&c.default_value, sizeof(c.default_value));
        a.insert(a.end(), b.begin(), b.end()); a.insert(a.end(), d.begin(), d.end()); return a;
    } else if constexpr (is_affine<B>::value) {
        using S = typename B::contravariant_input_t::scalar_t;
        constexpr std::size_t N = B::contravariant_input_t::dimensions;
        limbs_t a;
        for (std::size_t i = 0; i < N; ++i) for (std::size_t j = 0; j <= N; ++j) { S x = c(i, j); limbs_t l = to_limbs(&x, sizeof x); a.insert(a.end(), l.begin(), l.end()); }
        return a;
    } else return to_limbs(&c, sizeof(c));
}

template <typename B>
static auto cfg_tuple(const json & layers, std::size_t i) {
    if constexpr (B::is_initial) return std::make_tuple(cfg_from<B>(layers[i]));
    else return std::tuple_cat(std::make_tuple(cfg_from<B>(layers[i])), cfg_tuple<typename B::backend_t>(layers, i + 1));
}

template <typename B, typename O>
static void fill_array(const O & o, const json & layers, std::size_t i) {
    if constexpr (is_array<B>::value) {
        typename B::non_owning_data_t v(o);
        using vec_t = typename B::vector_t;
        using S = typename vec_t::value_type;
        const json & data = layers[i]["data"];
        std::size_t m = vec_t::dimensions;
        for (std::size_t k = 0; k < data.size(); ++k) { S x; from_limbs(x, data[k]); v.at(k / m)[k % m] = x; }
    } else if constexpr (!B::is_initial) {
        fill_array<typename B::backend_t>(o.get_backend(), layers, i + 1);
    }
}

template <typename B>
static covfie::field<B> build(const json & layers) {
    auto t = cfg_tuple<B>(layers, 0);
    covfie::field<B> f(std::apply([](auto &&... c) { return covfie::make_parameter_pack(std::move(c)...); }, std::move(t)));
    fill_array<B>(f.backend(), layers, 0);
    return f;
}

template <typename B, typename O>
static void extract(const O & o, json & out) {
    json l = json::object();
    if constexpr (is_array<B>::value) {
        typename B::non_owning_data_t v(o);
        using vec_t = typename B::vector_t;
        std::size_t m = vec_t::dimensions, n = o.get_configuration()[0];
        l["count"] = n;
        json data = json::array();
        for (std::size_t k = 0; k < n * m; ++k) { auto x = v.at(k / m)[k % m]; data.push_back(to_limbs(&x, sizeof(x))); }
        l["data"] = data;
    } else {
        l["cfg"] = cfg_to<B>(o.get_configuration());
    }
    out.push_back(l);
    if constexpr (!B::is_initial) extract<typename B::backend_t>(o.get_backend(), out);
}

// C06 "bit-identical stored values AT EVERY COORDINATE": look the reloaded field up through its view, not only at its storage
template <typename B> struct lookup_cmp { static long run(const covfie::field<B> &, const covfie::field<B> &) { return -1; } };
template <typename In, typename St, template <typename, typename> class Lay>
static long lookup_compare_layout(const covfie::field<Lay<In, St>> & a, const covfie::field<Lay<In, St>> & b) {
    using B = Lay<In, St>;
    constexpr std::size_t N = B::contravariant_input_t::dimensions;
    auto ext = a.backend().get_configuration();
    std::size_t total = 1; for (std::size_t k = 0; k < N; ++k) total *= ext[k];
    typename covfie::field<B>::view_t va(a), vb(b);
    long bad = 0;
    for (std::size_t cell = 0; cell < total; ++cell) {
        typename B::contravariant_input_t::vector_t c; std::size_t r = cell;
        for (std::size_t k = 0; k < N; ++k) { c[k] = r % ext[k]; r /= ext[k]; }
        auto x = va.at(c); auto y = vb.at(c);
        if (std::memcmp(&x, &y, sizeof(std::decay_t<decltype(x)>)) != 0) ++bad;
    }
    return bad;
}
template <typename In, typename St> struct lookup_cmp<cb::strided<In, St>> { static long run(const covfie::field<cb::strided<In, St>> & a, const covfie::field<cb::strided<In, St>> & b) { return lookup_compare_layout<In, St, cb::strided>(a, b); } };
template <typename In, typename St> struct lookup_cmp<cb::hilbert<In, St>> { static long run(const covfie::field<cb::hilbert<In, St>> & a, const covfie::field<cb::hilbert<In, St>> & b) { return lookup_compare_layout<In, St, cb::hilbert>(a, b); } };
template <typename In, typename St, bool U> struct lookup_cmp<cb::morton<In, St, U>> {
    static long run(const covfie::field<cb::morton<In, St, U>> & a, const covfie::field<cb::morton<In, St, U>> & b) {
        using B = cb::morton<In, St, U>;
        constexpr std::size_t N = B::contravariant_input_t::dimensions;
        auto ext = a.backend().get_configuration();
        std::size_t total = 1; for (std::size_t k = 0; k < N; ++k) total *= ext[k];
        typename covfie::field<B>::view_t va(a), vb(b);
        long bad = 0;
        for (std::size_t cell = 0; cell < total; ++cell) {
            typename B::contravariant_input_t::vector_t c; std::size_t r = cell;
            for (std::size_t k = 0; k < N; ++k) { c[k] = r % ext[k]; r /= ext[k]; }
            auto x = va.at(c); auto y = vb.at(c);
            if (std::memcmp(&x, &y, sizeof(std::decay_t<decltype(x)>)) != 0) ++bad;
        }
        return bad;
    }
};

static bool layers_equal(const json & got, const json & want, json & why) {
    if (got.size() != want.size()) { why = {{"what", "depth"}}; return false; }
    for (std::size_t i = 0; i < got.size(); ++i) {
        if (want[i].contains("count")) {
            if (got[i]["count"] != want[i]["count"]) { why = {{"layer", i}, {"what", "count"}, {"got", got[i]["count"]}, {"want", want[i]["count"]}}; return false; }
            if (got[i]["data"] != want[i]["data"]) {
                for (std::size_t k = 0; k < want[i]["data"].size(); ++k)
                    if (got[i]["data"][k] != want[i]["data"][k]) { why = {{"layer", i}, {"what", "stored value"}, {"index", k}, {"got", got[i]["data"][k]}, {"want", want[i]["data"][k]}}; return false; }
            }
        } else if (want[i].contains("cfg") && want[i]["cfg"].size() > 0) {
            if (got[i]["cfg"] != want[i]["cfg"]) { why = {{"layer", i}, {"what", "configuration"}, {"got", got[i]["cfg"]}, {"want", want[i]["cfg"]}}; return false; }
        }
    }
    return true;
}

// ------------------------------------------------------------------ type-indexed dispatch
template <typename Fn, std::size_t... Is>
static void dispatch_impl(std::size_t tid, Fn && fn, std::index_sequence<Is...>) {
    ((tid == Is + 1 ? (fn(std::type_identity<std::tuple_element_t<Is, catalogue>>{}), 0) : 0), ...);
}
template <typename Fn> static void dispatch(std::size_t tid, Fn && fn) { dispatch_impl(tid, fn, std::make_index_sequence<NTYPES>{}); }

static std::string dump_of(std::size_t tid, const json & layers) {
    std::string s;
    dispatch(tid, [&](auto tag) { using B = typename decltype(tag)::type; auto f = build<B>(layers); std::ostringstream os; f.dump(os); s = os.str(); });
    return s;
}

// a streambuf that starts failing at the n-th read request (underflow/xsgetn), 0 = never
struct failing_buf : std::streambuf {
    std::string data; std::size_t pos = 0; long reads = 0, fail_at = 0;
    failing_buf(std::string d, long n) : data(std::move(d)), fail_at(n) {}
    std::streamsize xsgetn(char * s, std::streamsize n) override {
        ++reads;
        if (fail_at && reads >= fail_at) return 0;
        std::streamsize k = std::min<std::streamsize>(n, (std::streamsize)(data.size() - pos));
        std::memcpy(s, data.data() + pos, (std::size_t)k); pos += (std::size_t)k; return k;
    }
    int_type underflow() override { return traits_type::eof(); }
};

// returns: 0 returned a field, 10 std::exception, 11 other exception, 12 returned a field and the injected read failure was
// never reached (the loader needed fewer read calls than the fault's position: no fault occurred, nothing to reject)
static int try_load(std::size_t tid, const std::string & bytes, long fail_at, json * layers_out, int mask = 0) {
    int rc = -1;
    dispatch(tid, [&](auto tag) {
        using B = typename decltype(tag)::type;
        try {
            failing_buf fb(bytes, fail_at);
            std::istream is(&fb);
            if (mask == 1) is.exceptions(std::ios::failbit | std::ios::badbit);      // the caller may have enabled stream exceptions
            if (mask == 2) is.exceptions(std::ios::eofbit);
            covfie::field<B> f(is);
            if (layers_out) { json l = json::array(); extract<B>(f.backend(), l); *layers_out = l; }
            rc = (fail_at && fb.reads < fail_at) ? 12 : 0;
        } catch (const std::exception &) { rc = 10; } catch (...) { rc = 11; }
    });
    return rc;
}

static std::string outcome_in_child(std::size_t tid, const std::string & bytes, long fail_at, int mask = 0) {
    std::cout.flush();
    pid_t p = fork();
    if (p == 0) {
        alarm(15);
        std::set_terminate([] { _exit(71); });
        int rc = try_load(tid, bytes, fail_at, nullptr, mask);
        _exit(rc);
    }
    int st = 0;
    waitpid(p, &st, 0);
    if (WIFSIGNALED(st)) return WTERMSIG(st) == SIGALRM ? "hang" : (WTERMSIG(st) == SIGABRT ? "aborted" : "signal-" + std::to_string(WTERMSIG(st)));
    int rc = WEXITSTATUS(st);
    if (rc == 0) return "returned";
    if (rc == 12) return "fault-not-reached";
    if (rc == 10 || rc == 11) return "threw";
    if (rc == 99) return "valgrind-error";
    if (rc == 71) return "terminate";
    return "exit-" + std::to_string(rc);      // sanitizer reports exit with 66 / 67
}

// ------------------------------------------------------------------ huge instances (beyond any block / buffer size)
// Fields with 10^5..10^6 stored vectors are dumped to a real file and loaded back by the same type and by its other-precision
// twin.  The harness compares EVERY stored scalar (bit pattern; other precision: against the conversion the format
// prescribes) and the re-dump; for TLC it logs the stream's structure - every limb before and after the payload, the total
// length, and the limbs of sampled scalars (block boundaries and random positions) in the file and in both reloaded fields -
// which Trace_Golden!THuge judges against the grammar and the Widen / Narrow functions of the specification.
template <typename B> struct kind_of;
template <typename S, std::size_t M> struct kind_of<arr<S, M>> { static json j() { return {{"k", "array"}, {"m", M}, {"w", sizeof(S) / 2}}; } };
template <typename I, typename X> struct kind_of<cb::strided<I, X>> { static json j() { return {{"k", "strided"}, {"n", I::size}}; } };
template <typename I, typename X, bool P> struct kind_of<cb::morton<I, X, P>> { static json j() { return {{"k", "morton"}, {"n", I::size}}; } };
template <typename X> struct kind_of<cb::affine<X>> { static json j() { return {{"k", "affine"}, {"n", X::contravariant_input_t::dimensions}, {"cw", sizeof(typename X::contravariant_input_t::scalar_t) / 2}}; } };
template <typename X, typename I> struct kind_of<cb::linear<X, I>> { static json j() { return {{"k", "linear"}}; } };
template <typename X, typename I> struct kind_of<cb::nearest_neighbour<X, I>> { static json j() { return {{"k", "nearest"}}; } };

template <typename B, typename O>
static void describe(const O & o, json & out, std::size_t & wrappers) {
    json l = kind_of<B>::j();
    if constexpr (is_array<B>::value) { l["count"] = (std::size_t)o.get_configuration()[0]; l["data"] = json::array(); }
    else { l["cfg"] = cfg_to<B>(o.get_configuration()); if (l["k"] != "linear" && l["k"] != "nearest") ++wrappers; }
    out.push_back(l);
    if constexpr (!B::is_initial) describe<typename B::backend_t>(o.get_backend(), out, wrappers);
}
template <typename B, typename O, typename Fn>
static void with_array(const O & o, Fn fn) {
    if constexpr (is_array<B>::value) fn(std::type_identity<B>{}, o);
    else with_array<typename B::backend_t>(o.get_backend(), fn);
}
static float pattern(std::size_t k) {   // finite, sign / exponent / mantissa all varying, some zeros and subnormals
    uint64_t x = (k + 1) * 0x9E3779B97F4A7C15ull; x ^= x >> 29;
    if (k % 97 == 0) return k % 2 ? 0.0f : -0.0f;
    uint32_t bits = (uint32_t)x; if (((bits >> 23) & 0xFF) == 0xFF) bits &= ~(1u << 30);
    float f; std::memcpy(&f, &bits, 4); return f;
}
static std::string slurp(const std::string & fn) { std::ifstream in(fn, std::ios::binary); std::stringstream ss; ss << in.rdbuf(); return ss.str(); }

template <typename B, typename X, typename Make>
static void huge_case(const std::string & name, Make make, rng & r, const std::string & tmp, std::ofstream & out) {
    ++g_cases;
    covfie::field<B> f = make(std::type_identity<B>{});
    std::size_t count = 0, m = 0, w = 0;
    with_array<B>(f.backend(), [&](auto tag, const auto & o) {
        using AB = typename decltype(tag)::type; using S = typename AB::vector_t::value_type;
        typename AB::non_owning_data_t v(o); count = o.get_configuration()[0]; m = AB::vector_t::dimensions; w = sizeof(S);
        for (std::size_t k = 0; k < count * m; ++k) v.at(k / m)[k % m] = (S)pattern(k);      // (float patterns are exact in double)
    });
    json ctx = {{"case", name}, {"vectors", count}, {"components", m}};
    const std::string fn = tmp + ".huge";
    { std::ofstream os(fn, std::ios::binary); f.dump(os); }
    const std::string bytes = slurp(fn);
    json layers = json::array(); std::size_t wrappers = 0; describe<B>(f.backend(), layers, wrappers);
    const std::size_t suffix = 8 * (wrappers + 2), payload = count * m * w;
    ++g_checks;
    if (bytes.size() < suffix + payload + 8) { mismatch("io/huge-length/" + name, {{"ctx", ctx}, {"bytes", bytes.size()}}); std::remove(fn.c_str()); return; }
    const std::size_t prefix = bytes.size() - suffix - payload;
    // same type back: every scalar bit-identical, re-dump byte-identical
    std::vector<std::size_t> samples = {0, 1, 2, count * m - 1, count * m - 2};
    for (std::size_t b : {4096ul, 8192ul, 16384ul, 32768ul, 43690ul, 43691ul, 65536ul, 87381ul, 87382ul, 131072ul, 174762ul, 262144ul, 524288ul})
        for (long d = -1; d <= 1; ++d) for (std::size_t mul : {std::size_t(1), m}) if (b * mul + d < count * m) samples.push_back(b * mul + d);
    for (int q = 0; q < 40; ++q) samples.push_back(r.below(count * m));
    json js = json::array();
    try {
        std::ifstream is(fn, std::ios::binary); covfie::field<B> g(is);
        std::ifstream is2(fn, std::ios::binary); covfie::field<X> h(is2);
        long bad = 0, badx = 0; std::size_t first = 0, firstx = 0;
        with_array<B>(g.backend(), [&](auto tag, const auto & o) {
            using AB = typename decltype(tag)::type; using S = typename AB::vector_t::value_type;
            typename AB::non_owning_data_t v(o);
            ++g_checks; if ((std::size_t)o.get_configuration()[0] != count) { mismatch("io/huge-count/" + name, ctx); return; }
            for (std::size_t k = 0; k < count * m; ++k) { S x = v.at(k / m)[k % m], e = (S)pattern(k); if (std::memcmp(&x, &e, sizeof x) != 0 && !bad++) first = k; }
            with_array<X>(h.backend(), [&](auto tagx, const auto & ox) {
                using AX = typename decltype(tagx)::type; using SX = typename AX::vector_t::value_type;
                typename AX::non_owning_data_t vx(ox);
                if ((std::size_t)ox.get_configuration()[0] != count) { mismatch("io/huge-count-other-precision/" + name, ctx); return; }
                for (std::size_t k = 0; k < count * m; ++k) { SX x = vx.at(k / m)[k % m]; volatile SX e = static_cast<SX>((S)pattern(k)); SX ee = e; if (std::memcmp(&x, &ee, sizeof x) != 0 && !badx++) firstx = k; }
                for (std::size_t k : samples) { S a = v.at(k / m)[k % m]; SX b = vx.at(k / m)[k % m];
                    js.push_back({{"i", k}, {"file", to_limbs(bytes.data() + prefix + k * w, w)}, {"same", to_limbs(&a, sizeof a)}, {"other", to_limbs(&b, sizeof b)}}); }
            });
        });
        g_checks += 2 * (long)(count * m);
        if (bad) mismatch("io/huge-reload-differs/" + name, {{"ctx", ctx}, {"differing_scalars", bad}, {"first_scalar_index", first}});
        if (badx) mismatch("io/huge-other-precision-differs/" + name, {{"ctx", ctx}, {"differing_scalars", badx}, {"first_scalar_index", firstx}});
        { std::ofstream os(fn + "2", std::ios::binary); g.dump(os); }
        ++g_checks; if (slurp(fn + "2") != bytes) mismatch("io/huge-redump-bytes/" + name, ctx);
        std::remove((fn + "2").c_str());
    } catch (const std::exception & e) { ++g_checks; mismatch("io/huge-load-threw/" + name, {{"ctx", ctx}, {"what", e.what()}}); }
    std::remove(fn.c_str());
    out << json({{"e", "huge"}, {"name", name}, {"layers", layers}, {"prefix", to_limbs(bytes.data(), prefix)}, {"suffix", to_limbs(bytes.data() + prefix + payload, suffix)},
                 {"odd", bytes.size() % 2}, {"kbytes", bytes.size() / 1024}, {"rbytes", bytes.size() % 1024}, {"wfile", w / 2}, {"wother", w == 4 ? 4 : 2}, {"samples", js}}).dump() << "\n";
}

int main(int argc, char ** argv) {
    install_terminate();
    std::string mode = argv[1];
    if (mode == "roundtrip") {
        std::map<std::pair<long, long>, json> inst;
        auto cases = read_ndjson(argv[2]);
        for (auto & c : cases) if (c["kind"] == "instance") inst[{c["tid"].get<long>(), c["v"].get<long>()}] = c;
        static std::string g_current;        // for the watchdog: a loader that does not come back within 60 s hangs
        std::signal(SIGALRM, [](int) {
            const char * a = "MISMATCH io/load-hangs "; (void)!write(1, a, std::strlen(a)); (void)!write(1, g_current.data(), g_current.size());
            const char * b = "\nSUMMARY {\"cases\":0,\"checks\":0,\"mismatches\":1,\"stopped_early\":\"loader hangs\"}\n"; (void)!write(1, b, std::strlen(b)); _exit(1); });
        for (auto & c : cases) {
            ++g_cases;
            std::size_t tid = c["tid"].get<std::size_t>();
            const json & x = inst[{c["tid"].get<long>(), c["v"].get<long>()}];
            json ctx = {{"type", tid}, {"valueset", c["v"]}};
            g_current = json({{"type", tid}, {"valueset", c["v"]}, {"case_kind", c["kind"]}, {"case", c.contains("t2") ? c["t2"] : json()}}).dump();
            std::cout.flush(); alarm(60);
            std::string bytes = dump_of(tid, x["layers"]);
            if (c["kind"] == "instance") {
                // byte-exact against the specification's independent definition of the format
                limbs_t got = to_limbs(bytes.data(), bytes.size()), want = c["stream"].get<limbs_t>();
                ++g_checks;
                if (got != want || bytes.size() % 2 != 0) {
                    std::size_t k = 0; while (k < got.size() && k < want.size() && got[k] == want[k]) ++k;
                    json d = ctx; d["first_difference_at_limb"] = k; d["got_len"] = got.size(); d["want_len"] = want.size();
                    if (k < got.size()) d["got"] = got[k]; if (k < want.size()) d["want"] = want[k];
                    mismatch("io/dump-bytes/type" + std::to_string(tid), d);
                }
                dispatch(tid, [&](auto tag) {      // lookups through views of the original and of the reloaded field
                    using B = typename decltype(tag)::type;
                    try {
                        auto orig = build<B>(x["layers"]);
                        std::istringstream is(bytes);
                        covfie::field<B> re(is);
                        long bad = lookup_cmp<B>::run(orig, re);
                        if (bad >= 0) expect_eq("io/reloaded-lookups/type" + std::to_string(tid), bad, 0L, ctx);
                    } catch (const std::exception &) {}
                });
                json loaded;
                int rc = try_load(tid, bytes, 0, &loaded);
                expect_eq("io/load-own-dump/type" + std::to_string(tid), rc, 0, ctx);
                if (rc == 0) {
                    json why; ++g_checks;
                    if (!layers_equal(loaded, x["layers"], why)) { json d = ctx; d["difference"] = why; mismatch("io/reloaded-field/type" + std::to_string(tid), d); }
                    std::string again = dump_of(tid, loaded.size() ? [&] { json m = x["layers"]; for (std::size_t i = 0; i < m.size(); ++i) { if (loaded[i].contains("cfg") && m[i].contains("cfg")) m[i]["cfg"] = loaded[i]["cfg"]; if (loaded[i].contains("data")) { m[i]["data"] = loaded[i]["data"]; m[i]["count"] = loaded[i]["count"]; } } return m; }() : x["layers"]);
                    ++g_checks;
                    if (again != bytes) mismatch("io/redump-bytes/type" + std::to_string(tid), ctx);
                }
            } else {   // cross: dump of (tid, v) loaded as type t2
                std::size_t t2 = c["t2"].get<std::size_t>();
                json d = ctx; d["loaded_as"] = t2;
                json loaded;
                int rc = try_load(t2, bytes, 0, &loaded);
                bool ok = c["ok"].get<bool>();
                ++g_checks;
                if (ok && rc != 0) mismatch("io/portable-load-rejected/" + std::to_string(tid) + "->" + std::to_string(t2), d);
                if (!ok && rc == 0) mismatch("io/incompatible-load-accepted/" + std::to_string(tid) + "->" + std::to_string(t2), d);
                if (ok && rc == 0 && c["exact"].get<bool>()) {
                    json why; ++g_checks;
                    if (!layers_equal(loaded, c["layers"], why)) { d["difference"] = why; mismatch("io/portable-load-values/" + std::to_string(tid) + "->" + std::to_string(t2), d); }
                }
            }
        }
        alarm(0);
        summary();
    } else if (mode == "faults") {
        std::map<std::pair<long, long>, json> inst;
        for (auto & c : read_ndjson(argv[2])) if (c["kind"] == "instance") inst[{c["tid"].get<long>(), c["v"].get<long>()}] = c;
        long stride = argc > 4 ? std::atol(argv[4]) : 1, offset = argc > 5 ? std::atol(argv[5]) : 0, ln = 0;
        std::map<std::string, long> outcomes;
        for (auto & c : read_ndjson(argv[3])) {
            if ((ln++ % stride) != offset) continue;
            ++g_cases;
            std::size_t tid = c["tid"].get<std::size_t>();
            const json & x = inst[{c["tid"].get<long>(), c["v"].get<long>()}];
            std::string bytes = dump_of(tid, x["layers"]);
            const json & ft = c["fault"];
            std::string kind = ft["f"];
            std::vector<std::pair<std::string, std::string>> variants;   // (description, bytes)
            long fail_at = 0; std::size_t reader = tid;
            if (kind == "truncate") {
                std::size_t at = ft["at"].get<std::size_t>();
                variants.push_back({"byte " + std::to_string(2 * at), bytes.substr(0, 2 * at)});
                variants.push_back({"byte " + std::to_string(2 * at + 1), bytes.substr(0, 2 * at + 1)});   // every byte offset
            } else if (kind == "corrupt") {
                std::size_t at = ft["at"].get<std::size_t>() - 1; unsigned v = ft["val"].get<unsigned>();
                std::string b = bytes; b[2 * at] = (char)(v & 0xFF); b[2 * at + 1] = (char)(v >> 8);
                variants.push_back({"limb " + std::to_string(at + 1) + " := " + std::to_string(v), b});
            } else if (kind == "failat") {
                fail_at = ft["n"].get<long>(); variants.push_back({"read " + std::to_string(fail_at) + " fails", bytes});
            } else if (kind == "wrongtype") {
                reader = ft["t2"].get<std::size_t>(); variants.push_back({"read as type " + std::to_string(reader), bytes});
            }
            for (auto & [desc, b] : variants) {
                for (int mask = 0; mask < 3; ++mask) {
                    if (mask != 0 && (g_cases % 4) != 0) continue;        // stream-exception masks on every fourth case
                    std::string o = outcome_in_child(reader, b, fail_at, mask);
                    outcomes[o]++;
                    ++g_checks;
                    if (o == "hang" && outcomes[o] > 3) { summary({{"outcomes", outcomes}, {"stopped_early", "loader hangs"}}); return 0; }   // do not wait out every case
                    if (o != "threw" && o != "fault-not-reached") mismatch("io/fault-" + kind + "/" + o + "/type" + std::to_string(tid), {{"type", tid}, {"valueset", c["v"]}, {"fault", ft}, {"variant", desc}, {"outcome", o}, {"stream_exception_mask", mask}, {"specified", "threw"}});
                }
            }
        }
        summary({{"outcomes", outcomes}});
    } else if (mode == "random") {   // random <cases> <seed> <n> <out>: random bit patterns on the catalogue's shapes, dumped by the real library
        std::vector<json> tmpl;
        for (auto & c : read_ndjson(argv[2])) if (c["kind"] == "instance") tmpl.push_back(c);
        rng r(std::strtoull(argv[3], nullptr, 10));
        long n = std::atol(argv[4]);
        std::ofstream out(argv[5]);
        auto rl = [&]() { unsigned v; do { v = (unsigned)r.below(65536); } while (v == 7851 || v == 7792); return v; };   // payloads never contain a magic word
        for (long q = 0; q < n; ++q) {
            json c = tmpl[r.below(tmpl.size())];
            json layers = c["layers"];
            for (auto & l : layers) {
                std::string k = l["k"];
                if (k == "array") { for (auto & sc : l["data"]) for (auto & x : sc) x = rl(); }
                else if (k == "affine" || k == "constant" || ((k == "clamp" || k == "backup") && l["cw"].get<int>() == 2)) { for (auto & x : l["cfg"]) x = rl(); }
                else if (k == "clamp" || k == "backup") { for (auto & x : l["cfg"]) x = rl(); }
            }
            std::size_t tid = c["tid"].get<std::size_t>();
            // every fifth instance of a row-major catalogue type is scaled up beyond 1024 cells (block-wise writers / readers,
            // payloads larger than a stream buffer); it is then written to and read from a real FILE
            bool big = false;
            if ((q % 5) == 4) {
                for (std::size_t i = 0; i + 1 < layers.size(); ++i)
                    if (layers[i]["k"] == "strided" && layers[i + 1]["k"] == "array" && !big) {
                        std::size_t n = layers[i]["n"].get<std::size_t>(), m = layers[i + 1]["m"].get<std::size_t>(), w = layers[i + 1]["w"].get<std::size_t>();
                        std::vector<std::size_t> ext(n); std::size_t prod = 1;
                        for (auto & x : ext) { x = 2 + r.below(n == 1 ? 2500 : (n == 2 ? 50 : 13)); prod *= x; }
                        if (prod < 1100) { ext[0] += 1100 / (prod / ext[0]) + 1; prod = 1; for (auto x : ext) prod *= x; }
                        json cfgl = json::array(); for (auto x : ext) { cfgl.push_back(x % 65536); cfgl.push_back(x / 65536); cfgl.push_back(0); cfgl.push_back(0); }
                        layers[i]["cfg"] = cfgl;
                        json data = json::array();
                        for (std::size_t k = 0; k < prod * m; ++k) { json sc = json::array(); for (std::size_t l = 0; l < w; ++l) sc.push_back(rl()); data.push_back(sc); }
                        layers[i + 1]["data"] = data; layers[i + 1]["count"] = prod;
                        big = true;
                    }
            }
            std::string bytes = dump_of(tid, layers);
            json loaded = json::array(); int rc = try_load(tid, bytes, 0, &loaded);   // (stays [] when the load throws: TLC cannot read null)
            if (big) {   // the same through std::ofstream / std::ifstream
                std::string fn = std::string(argv[5]) + ".field";
                dispatch(tid, [&](auto tag) {
                    using B = typename decltype(tag)::type;
                    { auto f = build<B>(layers); std::ofstream os(fn, std::ios::binary); f.dump(os); }
                    std::ifstream in(fn, std::ios::binary); std::stringstream ss; ss << in.rdbuf();
                    ++g_checks; if (ss.str() != bytes) mismatch("io/file-dump-bytes/type" + std::to_string(tid), {{"type", tid}});
                    try { std::ifstream is(fn, std::ios::binary); covfie::field<B> f2(is); json l2 = json::array(); extract<B>(f2.backend(), l2);
                          ++g_checks; if (l2 != loaded) mismatch("io/file-load-differs/type" + std::to_string(tid), {{"type", tid}, {"bytes", bytes.size()}}); }
                    catch (const std::exception & e) { ++g_checks; mismatch("io/file-load-threw/type" + std::to_string(tid), {{"type", tid}, {"bytes", bytes.size()}, {"what", e.what()}}); }
                });
                std::remove(fn.c_str());
            }
            out << json({{"e", "dump"}, {"tid", tid}, {"limbs", to_limbs(bytes.data(), bytes.size())}, {"odd", bytes.size() % 2}, {"layers", layers},
                         {"reload_rc", rc}, {"reloaded", loaded}}).dump() << "\n";
            ++g_cases;
        }
        summary({{"events", g_cases}});
    } else if (mode == "gen6") {   // gen6 <seed> <n> <dir>: files of catalogue type 6 (affine<linear<strided<size3, array<float3>>>>) with random extents
        rng r(std::strtoull(argv[2], nullptr, 10));
        long n = std::atol(argv[3]);
        using core_f = cb::strided<sz<3>, arr<float, 3>>;
        using B = cb::affine<cb::linear<core_f>>;
        for (long q = 0; q < n; ++q) {
            std::size_t e0 = 1 + r.below(6), e1 = 1 + r.below(6), e2 = 1 + r.below(6);
            auto a = covfie::algebra::affine<3>::scaling(0.5f, 2.f, 0.25f) * covfie::algebra::affine<3>::translation((float)r.below(9), -(float)r.below(5), 1.f);
            covfie::field<B> f(covfie::make_parameter_pack(typename B::configuration_t(a), std::monostate{}, typename core_f::configuration_t{e0, e1, e2}));
            with_array<B>(f.backend(), [&](auto tag, const auto & o) {
                using AB = typename decltype(tag)::type;
                typename AB::non_owning_data_t v(o);
                for (std::size_t k = 0; k < e0 * e1 * e2 * 3; ++k) v.at(k / 3)[k % 3] = pattern(k * 7 + (std::size_t)q * 1000003);
            });
            std::ofstream os(std::string(argv[4]) + "/in" + std::to_string(q) + ".cvfield", std::ios::binary);
            f.dump(os);
            ++g_cases;
        }
        summary();
    } else if (mode == "huge") {   // huge <seed> <out> [thorough]
        rng r(std::strtoull(argv[2], nullptr, 10));
        std::ofstream out(argv[3]);
        const bool more = argc > 4;
        const std::string tmp = argv[3];
        auto st3 = [&](std::size_t a, std::size_t b, std::size_t c) { return [=](auto tag) { using B = typename decltype(tag)::type; return covfie::field<B>(covfie::make_parameter_pack(typename B::configuration_t{a, b, c})); }; };
        auto st2 = [&](std::size_t a, std::size_t b) { return [=](auto tag) { using B = typename decltype(tag)::type; return covfie::field<B>(covfie::make_parameter_pack(typename B::configuration_t{a, b})); }; };
        auto st1 = [&](std::size_t a) { return [=](auto tag) { using B = typename decltype(tag)::type; return covfie::field<B>(covfie::make_parameter_pack(typename B::configuration_t{a})); }; };
        huge_case<cb::strided<sz<3>, arr<float, 3>>, cb::strided<sz<3>, arr<double, 3>>>("strided3-float3-48", st3(48, 48, 48), r, tmp, out);
        huge_case<cb::strided<sz<3>, arr<double, 3>>, cb::strided<sz<3>, arr<float, 3>>>("strided3-double3-47x45x43", st3(47, 45, 43), r, tmp, out);
        huge_case<cb::strided<sz<3>, arr<float, 3>>, cb::strided<sz<3>, arr<double, 3>>>("strided3-float3-64", st3(64, 64, 64), r, tmp, out);
        huge_case<cb::strided<sz<2>, arr<float, 2>>, cb::strided<sz<2>, arr<double, 2>>>("strided2-float2-700x530", st2(700, 530), r, tmp, out);
        huge_case<cb::morton<sz<2>, arr<float, 3>>, cb::morton<sz<2>, arr<double, 3>>>("morton2-float3-300x290", [&](auto tag) { using B = typename decltype(tag)::type;
            covfie::field<cb::strided<sz<2>, arr<float, 3>>> rowmajor(covfie::make_parameter_pack(typename B::configuration_t{300, 290})); return covfie::field<B>(rowmajor); }, r, tmp, out);
        huge_case<cb::strided<sz<1>, arr<double, 1>>, cb::strided<sz<1>, arr<float, 1>>>("strided1-double1-2^20+3", st1((1u << 20) + 3), r, tmp, out);
        // an interpolating stack written with one method and precision, read with the other (C07)
        {
            using core_f = cb::strided<sz<3>, arr<float, 3>>; using core_d = cb::strided<sz<3>, arr<double, 3>>;
            auto mk = [&](auto tag) { using B = typename decltype(tag)::type;
                auto a = covfie::algebra::affine<3>::scaling(0.25f, 0.5f, 0.125f) * covfie::algebra::affine<3>::translation(3.f, -2.f, 7.f);
                return covfie::field<B>(covfie::make_parameter_pack(typename B::configuration_t(a), std::monostate{}, typename core_f::configuration_t{61, 53, 47})); };
            huge_case<cb::affine<cb::linear<core_f>>, cb::affine<cb::nearest_neighbour<core_d>>>("affine-linear-float3-61x53x47", mk, r, tmp, out);
        }
        if (more) {
            huge_case<cb::strided<sz<3>, arr<double, 3>>, cb::strided<sz<3>, arr<float, 3>>>("strided3-double3-96", st3(96, 96, 96), r, tmp, out);
            huge_case<cb::strided<sz<3>, arr<float, 4>>, cb::strided<sz<3>, arr<double, 4>>>("strided3-float4-101x99x97", st3(101, 99, 97), r, tmp, out);
            huge_case<cb::strided<sz<1>, arr<float, 3>>, cb::strided<sz<1>, arr<double, 3>>>("strided1-float3-2^21+1", st1((1u << 21) + 1), r, tmp, out);
        }
        summary({{"events", g_cases}});
    } else if (mode == "floats") {   // TLC-emitted (float, Widen(float)) and (double, Narrow(double)) limb pairs vs the conversions the loader uses
        for (auto & c : read_ndjson(argv[2])) {
            ++g_cases;
            if (c["kind"] == "widen") {
                float f; from_limbs(f, c["f"]); volatile double d = static_cast<double>(f); double dd = d;
                if (f == f) expect_eq("float/widen", to_limbs(&dd, 8), c["d"].get<limbs_t>(), {{"f", c["f"]}});
            } else {
                double d; from_limbs(d, c["d"]); volatile float f = static_cast<float>(d); float ff = f;
                expect_eq("float/narrow", to_limbs(&ff, 4), c["f"].get<limbs_t>(), {{"d", c["d"]}});
            }
        }
        summary();
    } else if (mode == "golden-write") {
        for (auto & c : read_ndjson(argv[2])) {
            if (c["kind"] != "instance" || c["v"].get<long>() != 1) continue;
#ifdef VF_PINNED
            { long t = c["tid"].get<long>(); if (t == 9 || t == 12 || t == 14 || t == 15) continue; }
#endif
            std::string bytes = dump_of(c["tid"].get<std::size_t>(), c["layers"]);
            std::ofstream(std::string(argv[3]) + "/type" + std::to_string(c["tid"].get<long>()) + ".cvfield", std::ios::binary) << bytes;
            ++g_cases;
        }
        summary();
    } else if (mode == "golden-check") {
        std::ofstream out(argv[4]);
        for (auto & c : read_ndjson(argv[2])) {
            std::size_t tid = c["tid"].get<std::size_t>();
            std::ifstream in(std::string(argv[3]) + "/type" + std::to_string(tid) + ".cvfield", std::ios::binary);
            std::stringstream ss; ss << in.rdbuf(); std::string bytes = ss.str();
            json ctx = {{"type", tid}, {"file", "type" + std::to_string(tid) + ".cvfield"}};
            ++g_cases;
            json loaded;
            int rc = try_load(tid, bytes, 0, &loaded);
            expect_eq("golden/loads/type" + std::to_string(tid), rc, 0, ctx);
            if (rc != 0) continue;
            json why; ++g_checks;
            if (!layers_equal(loaded, c["layers"], why)) { json d = ctx; d["difference"] = why; mismatch("golden/content/type" + std::to_string(tid), d); }
            std::string again = dump_of(tid, c["layers"]);
            ++g_checks;
            if (again != bytes) mismatch("golden/redump-bytes/type" + std::to_string(tid), ctx);
            out << json({{"e", "golden"}, {"tid", tid}, {"limbs", to_limbs(bytes.data(), bytes.size())}, {"odd", bytes.size() % 2}}).dump() << "\n";
        }
        summary();
    }
    return 0;
}
