// C04: nearest-neighbour lookup.  Cases come from TLC in rank space (k, pos/16); this program concretises them
// in float and double with nextafter and checks that the lattice point the real layer chose is one the
// specification allows.  trace mode logs random lookups with floor(x) and the exact relation to the half.
#include <cmath>
#include <covfie/core/backend/primitive/array.hpp>
#include <covfie/core/backend/primitive/identity.hpp>
#include <covfie/core/backend/transformer/nearest_neighbour.hpp>
#include <covfie/core/backend/transformer/strided.hpp>
#include <covfie/core/field.hpp>
#include "common.hpp"
using namespace vf;
namespace cb = covfie::backend;
namespace cv = covfie::vector;

template <typename P> static const char * pname();
template <> const char * pname<float>() { return "float"; }
template <> const char * pname<double>() { return "double"; }

template <typename P>
static P concretise(long k, int pos) {
    const P inf = std::numeric_limits<P>::infinity();
    switch (pos) {
        case 0: return (P)k;
        case 1: return std::nextafter((P)k, inf);
        case 4: return (P)k + (P)0.25;
        case 7: return std::nextafter((P)k + (P)0.5, -inf);
        case 8: return (P)k + (P)0.5;
        case 9: return std::nextafter((P)k + (P)0.5, inf);
        case 12: return (P)k + (P)0.75;
        case 15: return std::nextafter((P)k + (P)1, -inf);
    }
    std::abort();
}

// the eight positions must stay distinct and ordered at this magnitude, otherwise the concretisation is not
// order-preserving and the case is skipped for this precision
template <typename P>
static bool representable(long k) {
    const int ps[] = {0, 1, 4, 7, 8, 9, 12, 15};
    P prev = concretise<P>(k, 0);
    if (prev != (P)k || (long)prev != k) return false;
    for (int i = 1; i < 8; ++i) { P v = concretise<P>(k, ps[i]); if (!(v > prev)) return false; prev = v; }
    return prev < (P)(k + 1);
}

template <typename P, std::size_t N>
static void run_case(const json & c, long offset) {
    auto ks = c["k"].get<std::vector<long>>();
    auto ps = c["pos"].get<std::vector<int>>();
    for (auto k : ks) if (!representable<P>(k + offset) || (offset != 0 && k < 0)) return;
    ++g_cases;
    covfie::array::array<P, N> x;
    for (std::size_t i = 0; i < N; ++i) x[i] = concretise<P>(ks[i] + offset, ps[i]);
    json ctx = {{"prec", pname<P>()}, {"k", ks}, {"pos", ps}, {"offset", offset}};
    auto ok = [&](std::size_t i, long got) { for (auto & a : c["allowed"][i]) if (a.get<long>() + offset == got) return true; return false; };
    {   // over identity<long>: the value is the lattice point that was chosen
        using I = cb::identity<cv::vector_d<long, N>>;
        using NN = cb::nearest_neighbour<I, cv::vector_d<P, N>>;
        covfie::field<NN> f(covfie::make_parameter_pack(std::monostate{}, std::monostate{}));
        typename covfie::field<NN>::view_t v(f);
        auto r = v.at(x);
        for (std::size_t i = 0; i < N; ++i) { ++g_checks; if (!ok(i, r[i])) { json d = ctx; d["axis"] = i; d["chosen"] = r[i]; d["allowed"] = c["allowed"][i]; mismatch(std::string("nn/identity/") + pname<P>(), d); } }
        // the variadic form of the lookup, at(x0, x1, ...), must take its arguments in the coordinate's own precision
        auto rv = [&]() { if constexpr (N == 1) return v.at(x[0]); else if constexpr (N == 2) return v.at(x[0], x[1]); else if constexpr (N == 3) return v.at(x[0], x[1], x[2]); else return v.at(x[0], x[1], x[2], x[3]); }();
        for (std::size_t i = 0; i < N; ++i) { ++g_checks; if (!ok(i, rv[i])) { json d = ctx; d["axis"] = i; d["chosen"] = rv[i]; d["allowed"] = c["allowed"][i]; mismatch(std::string("nn/identity-variadic-lookup/") + pname<P>(), d); } }
    }
    if (offset == 0) {   // over real storage: 8 cells per axis, cell value encodes its coordinate
        using A = cb::array<cv::vector_d<float, 1>>;
        using S = cb::strided<cv::vector_d<std::size_t, N>, A>;
        using NN = cb::nearest_neighbour<S, cv::vector_d<P, N>>;
        static covfie::field<NN> * fp = nullptr;
        if (!fp) {
            typename S::configuration_t ext; std::size_t prod = 1;
            for (std::size_t i = 0; i < N; ++i) { ext[i] = 8; prod *= 8; }
            fp = new covfie::field<NN>(covfie::make_parameter_pack(std::monostate{}, std::move(ext), typename A::configuration_t{prod}));
            covfie::field<S> tmp(covfie::make_parameter_pack(typename S::configuration_t(fp->backend().get_backend().get_configuration()), typename A::configuration_t{prod}));
            typename covfie::field<S>::view_t tv(tmp);
            for (std::size_t cell = 0; cell < prod; ++cell) {
                covfie::array::array<std::size_t, N> cc; std::size_t rest = cell; float val = 0, w = 1;
                for (std::size_t i = 0; i < N; ++i) { cc[i] = rest % 8; rest /= 8; val += w * (float)cc[i]; w *= 10; }
                tv.at(cc)[0] = val;
            }
            delete fp;
            fp = new covfie::field<NN>(covfie::make_parameter_pack(std::monostate{}, typename S::configuration_t(tmp.backend().get_configuration()),
                                                                    typename A::owning_data_t(tmp.backend().get_backend())));
        }
        typename covfie::field<NN>::view_t v(*fp);
        long code = std::lround(v.at(x)[0]);
        for (std::size_t i = 0; i < N; ++i) { long got = code % 10; code /= 10; ++g_checks; if (!ok(i, got)) { json d = ctx; d["axis"] = i; d["chosen"] = got; d["allowed"] = c["allowed"][i]; mismatch(std::string("nn/array/") + pname<P>(), d); } }
    }
}

template <typename P>
static void run_prec(const json & c) {
    for (long off : {0L, 1L << 10, (1L << 20) + 2, (1L << 24) + 1, (1L << 30) + 4}) {
        switch (c["n"].get<int>()) {
            case 1: run_case<P, 1>(c, off); break;
            case 2: run_case<P, 2>(c, off); break;
            case 3: run_case<P, 3>(c, off); break;
            case 4: run_case<P, 4>(c, off); break;
        }
    }
}

template <typename P, std::size_t N>
static void trace(rng & r, std::ofstream & out, long n, long & events) {
    using I = cb::identity<cv::vector_d<long, N>>;
    using NN = cb::nearest_neighbour<I, cv::vector_d<P, N>>;
    covfie::field<NN> f(covfie::make_parameter_pack(std::monostate{}, std::monostate{}));
    typename covfie::field<NN>::view_t v(f);
    const int mant = std::is_same_v<P, float> ? 21 : 30;
    for (long q = 0; q < n; ++q) {
        covfie::array::array<P, N> x;
        std::vector<long> ks; std::vector<std::string> rels;
        for (std::size_t i = 0; i < N; ++i) {
            long k = (long)r.below(1ull << (1 + r.below(mant))) - (r.below(16) == 0 ? 1 : 0);
            P frac;
            const bool big_lattice = r.below(8) == 0;     // a lattice point itself, of a magnitude where the type has no fractional bits left
            if (big_lattice) k = (long)((1ull << (std::is_same_v<P, float> ? 22 : 29)) + r.below(1ull << (std::is_same_v<P, float> ? 22 : 29)));
            switch (big_lattice ? 3 : r.below(6)) {
                case 0: frac = (P)0.5; break;
                case 1: frac = std::nextafter((P)0.5, (P)0); break;
                case 2: frac = std::nextafter((P)0.5, (P)1); break;
                case 3: frac = 0; break;
                default: frac = (P)((double)r.below(1u << 20) / (double)(1u << 20));
            }
            if (k < 0) { k = -1; if (!(frac > (P)0.5)) frac = (P)0.75; }
            P xv = (P)k + frac;
            P fl = std::floor(xv);
            P d = xv - fl;             // exact
            x[i] = xv;
            ks.push_back((long)fl);
            rels.push_back(d == 0 ? "int" : (d < (P)0.5 ? "below" : (d == (P)0.5 ? "half" : "above")));
        }
        auto got = v.at(x);
        std::vector<long> g; for (std::size_t i = 0; i < N; ++i) g.push_back(got[i]);
        out << json({{"e", "nn"}, {"prec", pname<P>()}, {"k", ks}, {"rel", rels}, {"got", g}}).dump() << "\n";
        ++events;
    }
}

// the published vector descriptor aliases mean what their names say
static_assert(std::is_same_v<cv::float1, cv::vector_d<float, 1>> && std::is_same_v<cv::float2, cv::vector_d<float, 2>> && std::is_same_v<cv::float3, cv::vector_d<float, 3>> && std::is_same_v<cv::float4, cv::vector_d<float, 4>>);
static_assert(std::is_same_v<cv::double1, cv::vector_d<double, 1>> && std::is_same_v<cv::double2, cv::vector_d<double, 2>> && std::is_same_v<cv::double3, cv::vector_d<double, 3>> && std::is_same_v<cv::double4, cv::vector_d<double, 4>>);
static_assert(std::is_same_v<cv::size1, cv::vector_d<std::size_t, 1>> && std::is_same_v<cv::size2, cv::vector_d<std::size_t, 2>> && std::is_same_v<cv::size3, cv::vector_d<std::size_t, 3>> && std::is_same_v<cv::size4, cv::vector_d<std::size_t, 4>>);

int main(int argc, char ** argv) {
    install_terminate();
    std::string mode = argv[1];
    if (mode == "replay") {
        for (auto & c : read_ndjson(argv[2])) { run_prec<float>(c); run_prec<double>(c); }
        summary();
    } else if (mode == "trace") {
        rng r(std::strtoull(argv[2], nullptr, 10));
        long n = std::atol(argv[3]);
        std::ofstream out(argv[4]);
        long events = 0;
        trace<float, 1>(r, out, n, events); trace<double, 1>(r, out, n, events);
        trace<float, 2>(r, out, n, events); trace<double, 2>(r, out, n, events);
        trace<float, 3>(r, out, n / 2, events); trace<double, 3>(r, out, n / 2, events);
        trace<float, 4>(r, out, n / 2, events); trace<double, 4>(r, out, n / 2, events);
        g_cases = events;
        summary({{"events", events}});
    }
    return 0;
}
