// C03: linear interpolation on the exact domain.  Cases (whole stored field + queries with integer numerators over
// D^N) come from TLC; results must match exactly for every coordinate / storage precision, every M, over strided
// and Morton storage, with a clamp beneath, and the cells read must be exactly the cell's vertices.
#include <cmath>
#include <map>
#include <set>
#include <covfie/core/backend/primitive/array.hpp>
#include <covfie/core/backend/transformer/clamp.hpp>
#include <covfie/core/backend/transformer/linear.hpp>
#include <covfie/core/backend/transformer/morton.hpp>
#include <covfie/core/backend/transformer/strided.hpp>
#include <covfie/core/field.hpp>
#include "common.hpp"
#include "probe.hpp"
using namespace vf;
namespace cb = covfie::backend;
namespace cv = covfie::vector;

#ifndef VF_N
#define VF_N 0
#endif

template <typename T> static const char * tname();
template <> const char * tname<float>() { return "float"; }
template <> const char * tname<double>() { return "double"; }

template <std::size_t N, std::size_t M, typename S>
using strided_t = cb::strided<cv::vector_d<std::size_t, N>, cb::array<cv::vector_d<S, M>>>;

template <std::size_t N, std::size_t M, typename S>
static covfie::field<strided_t<N, M, S>> build_grid(const json & c) {
    using B = strided_t<N, M, S>;
    typename B::configuration_t ext; std::size_t prod = 1;
    for (std::size_t k = 0; k < N; ++k) { ext[k] = c["ext"][k].get<std::size_t>(); prod *= ext[k]; }
    covfie::field<B> f(covfie::make_parameter_pack(std::move(ext), typename B::backend_t::configuration_t{prod}));
    typename covfie::field<B>::view_t v(f);
    for (auto & cell : c["cells"]) {
        covfie::array::array<std::size_t, N> cc;
        for (std::size_t k = 0; k < N; ++k) cc[k] = cell["c"][k].get<std::size_t>();
        for (std::size_t q = 0; q < M; ++q) v.at(cc)[q] = (S)cell["v"][q % 3].get<long>();
    }
    return f;
}

template <std::size_t N, typename P>
static covfie::array::array<P, N> coord(const json & q, long D) {
    covfie::array::array<P, N> x;
    for (std::size_t k = 0; k < N; ++k) x[k] = (P)q["i"][k].get<long>() + (P)q["f"][k].get<long>() / (P)D;
    return x;
}

template <typename V, std::size_t M>
static void compare(const std::string & key, const V & r, const json & q, long DN, const json & ctx) {
    for (std::size_t k = 0; k < M; ++k) {
        json x = ctx; x["i"] = q["i"]; x["f"] = q["f"]; x["component"] = k;
        expect_eq(key, (double)r[k] * (double)DN, (double)q["num"][k % 3].get<long>(), x);
    }
}

template <std::size_t N, std::size_t M, typename P, typename S>
static void run_grid(const json & c) {
    const std::string tag = "N" + std::to_string(N) + "/M" + std::to_string(M) + "/coord-" + tname<P>() + "/store-" + tname<S>();
    long D = c["D"].get<long>(), DN = 1;
    for (std::size_t k = 0; k < N; ++k) DN *= D;
    json ctx = {{"ext", c["ext"]}, {"inst", tag}};
    auto base = build_grid<N, M, S>(c);
    using B = strided_t<N, M, S>;
    using L = cb::linear<B, cv::vector_d<P, N>>;
    covfie::field<L> f(base);      // wrapper layers are constructible from their backend's field
    typename covfie::field<L>::view_t v(f);
    for (auto & q : c["queries"]) {
        auto x = coord<N, P>(q, D);
        compare<decltype(v.at(x)), M>("linear/strided/" + tag, v.at(x), q, DN, ctx);
    }
    if constexpr (M == 3 || M == 1) {
        // the same field in Morton order beneath the interpolator
        using MB = cb::morton<cv::vector_d<std::size_t, N>, cb::array<cv::vector_d<S, M>>>;
        using LM = cb::linear<MB, cv::vector_d<P, N>>;
        covfie::field<LM> fm(f);   // whole-stack conversion linear<strided> -> linear<morton>
        typename covfie::field<LM>::view_t vm(fm);
        for (auto & q : c["queries"]) {
            auto x = coord<N, P>(q, D);
            compare<decltype(vm.at(x)), M>("linear/morton/" + tag, vm.at(x), q, DN, ctx);
        }
    }
    if constexpr (M == 2 && std::is_same_v<S, float>) {
        // which backend cells does one lookup read?  (N-dimensional probe directly beneath the interpolator)
        using PB = probe<cv::vector_d<std::size_t, N>, cv::vector_d<float, M>>;
        using LP = cb::linear<PB, cv::vector_d<P, N>>;
        covfie::field<LP> fp(covfie::make_parameter_pack(std::monostate{}, typename PB::configuration_t{0}));
        typename covfie::field<LP>::view_t vp(fp);
        for (auto & q : c["queries"]) {
            g_probe.reset(); g_probe.record_all = true;
            (void)vp.at(coord<N, P>(q, D));
            g_probe.record_all = false;
            std::set<std::vector<long>> got, want;
            for (auto & r : g_probe.all) { std::vector<long> t; for (auto z : r) t.push_back((long)z); got.insert(t); }
            for (auto & r : q["reads"]) want.insert(r.get<std::vector<long>>());
            ++g_checks;
            if (got != want) mismatch("linear/cells-read/" + tag, {{"i", q["i"]}, {"f", q["f"]}, {"got", got}, {"want", want}});
            expect_eq("linear/number-of-reads/" + tag, (long)g_probe.all.size(), (long)(1L << N), {{"i", q["i"]}});
        }
    }
}

template <std::size_t N, std::size_t M, typename P, typename S>
static void run_clamp(const json & c, const json & grid) {
    // linear<clamp<strided>>: any x_k >= 0 is in the domain
    const std::string tag = "N" + std::to_string(N) + "/M" + std::to_string(M) + "/coord-" + tname<P>() + "/store-" + tname<S>();
    long D = c["D"].get<long>(), DN = 1;
    for (std::size_t k = 0; k < N; ++k) DN *= D;
    auto base = build_grid<N, M, S>(grid);
    using B = strided_t<N, M, S>;
    using C = cb::clamp<B>;
    using L = cb::linear<C, cv::vector_d<P, N>>;
    typename C::configuration_t box;
    for (std::size_t k = 0; k < N; ++k) { box.min[k] = 0; box.max[k] = c["ext"][k].get<std::size_t>() - 1; }
    covfie::field<L> f(covfie::make_parameter_pack(std::monostate{}, typename C::configuration_t(box), typename B::configuration_t(base.backend().get_configuration()),
                                                   typename B::backend_t::owning_data_t(base.backend().get_backend())));
    typename covfie::field<L>::view_t v(f);
    json ctx = {{"ext", c["ext"]}, {"inst", tag}, {"stack", "linear<clamp<strided>>"}};
    for (auto & q : c["queries"]) {
        auto x = coord<N, P>(q, D);
        compare<decltype(v.at(x)), M>("linear/clamp-beneath/" + tag, v.at(x), q, DN, ctx);
    }
}

template <std::size_t N, typename P, typename S>
static void run_probe(const json & c) {
    // two cells along `axis' hold v0 and v1 (every other axis: both cells equal), fraction f / 2^logD on that axis
    using B = strided_t<N, 1, S>;
    using L = cb::linear<B, cv::vector_d<P, N>>;
    int L2 = c["logD"].get<int>();
    std::size_t axis = c["axis"].get<std::size_t>() - 1;
    typename B::configuration_t ext; std::size_t prod = 1;
    for (std::size_t k = 0; k < N; ++k) { ext[k] = 2; prod *= 2; }
    covfie::field<B> base(covfie::make_parameter_pack(std::move(ext), typename B::backend_t::configuration_t{prod}));
    typename covfie::field<B>::view_t bv(base);
    for (std::size_t cell = 0; cell < prod; ++cell) {
        covfie::array::array<std::size_t, N> cc;
        for (std::size_t k = 0; k < N; ++k) cc[k] = (cell >> k) & 1;
        bv.at(cc)[0] = (S)(cc[axis] ? c["v1"].get<long>() : c["v0"].get<long>());
    }
    covfie::field<L> f(base);
    typename covfie::field<L>::view_t v(f);
    covfie::array::array<P, N> x;
    for (std::size_t k = 0; k < N; ++k) x[k] = 0;
    x[axis] = std::ldexp((P)c["f"].get<long>(), -L2);
    double want = std::ldexp((double)c["num"].get<long>(), -L2);
    json ctx = {{"n", N}, {"axis", axis}, {"logD", L2}, {"f", c["f"]}, {"v0", c["v0"]}, {"v1", c["v1"]}, {"coord", tname<P>()}, {"store", tname<S>()}};
    expect_eq(std::string("linear/precision-probe/coord-") + tname<P>() + "/store-" + tname<S>(), (double)v.at(x)[0], want, ctx);
}

template <std::size_t N, typename P, typename S>
static void run_scaled(const json & c) {
    // values v0, v1 in {+1, -1} scaled by 2^E with E the largest exponent of the narrower of (P, S): opposite signs differ by
    // more than the largest finite value, yet every correct intermediate of the weighted sum is finite
    using B = strided_t<N, 1, S>;
    using L = cb::linear<B, cv::vector_d<P, N>>;
    const int E = (std::is_same_v<P, float> || std::is_same_v<S, float>) ? 127 : 1023;
    std::size_t axis = c["axis"].get<std::size_t>() - 1;
    long D = c["D"].get<long>();
    typename B::configuration_t ext; std::size_t prod = 1;
    for (std::size_t k = 0; k < N; ++k) { ext[k] = 2; prod *= 2; }
    covfie::field<B> base(covfie::make_parameter_pack(std::move(ext), typename B::backend_t::configuration_t{prod}));
    typename covfie::field<B>::view_t bv(base);
    for (std::size_t cell = 0; cell < prod; ++cell) {
        covfie::array::array<std::size_t, N> cc;
        for (std::size_t k = 0; k < N; ++k) cc[k] = (cell >> k) & 1;
        bv.at(cc)[0] = (S)std::ldexp((double)(cc[axis] ? c["v1"].get<long>() : c["v0"].get<long>()), E);
    }
    covfie::field<L> f(base);
    typename covfie::field<L>::view_t v(f);
    covfie::array::array<P, N> x;
    for (std::size_t k = 0; k < N; ++k) x[k] = 0;
    x[axis] = (P)c["f"].get<long>() / (P)D;
    double want = std::ldexp((double)c["num"].get<long>() / (double)D, E);
    double got = (double)v.at(x)[0];
    json ctx = {{"n", N}, {"axis", axis}, {"f", c["f"]}, {"v0", c["v0"]}, {"v1", c["v1"]}, {"scale_exponent", E}, {"coord", tname<P>()}, {"store", tname<S>()}};
    ++g_checks;
    if (!(got == want)) { json d = ctx; d["got"] = std::isfinite(got) ? json(got) : json(std::isnan(got) ? "nan" : "inf"); d["want"] = want; mismatch(std::string("linear/huge-magnitudes/coord-") + tname<P>() + "/store-" + tname<S>(), d); }
}

template <std::size_t N>
static void run_n(const json & c, const std::map<std::vector<long>, json> & grids) {
    std::string kind = c["kind"];
    if (kind == "grid") {
        run_grid<N, 1, float, float>(c); run_grid<N, 1, double, double>(c);
        run_grid<N, 2, float, float>(c); run_grid<N, 2, double, float>(c);
        run_grid<N, 3, float, float>(c); run_grid<N, 3, float, double>(c); run_grid<N, 3, double, float>(c); run_grid<N, 3, double, double>(c);
        run_grid<N, 4, float, double>(c); run_grid<N, 4, double, double>(c);
    } else if (kind == "clamp") {
        if constexpr (N <= 2) {
            auto it = grids.find(c["ext"].get<std::vector<long>>());
            if (it == grids.end()) return;
            run_clamp<N, 3, float, float>(c, it->second); run_clamp<N, 1, double, double>(c, it->second); run_clamp<N, 2, double, float>(c, it->second);
        }
    } else if (kind == "scaled") {
        run_scaled<N, float, float>(c); run_scaled<N, double, double>(c); run_scaled<N, double, float>(c); run_scaled<N, float, double>(c);
    } else if (kind == "probe") {
        int L2 = c["logD"].get<int>();
        if (L2 <= 20) { run_probe<N, float, float>(c); run_probe<N, float, double>(c); run_probe<N, double, float>(c); }
        run_probe<N, double, double>(c);
    }
}

template <std::size_t N, typename P, typename S>
static void trace_n(rng & r, std::ofstream & out, long n, long & events) {
    // random grids, random integer values, random dyadic query points; the harness logs the stored corner values
    // (from its own copy of the data) and the numerator the real interpolator produced
    using B = strided_t<N, 2, S>;
    using L = cb::linear<B, cv::vector_d<P, N>>;
    const int p = N <= 2 ? 5 : (N == 3 ? 3 : 2);       // fractional bits per axis: N*p + 8 value bits <= 24
    const long D = 1L << p;
    for (long g = 0; g < n; ++g) {
        typename B::configuration_t ext; std::size_t prod = 1;
        std::vector<long> e(N);
        for (std::size_t k = 0; k < N; ++k) { e[k] = 2 + (long)r.below(N <= 3 ? 4 : 2); ext[k] = e[k]; prod *= e[k]; }
        std::vector<long> data(prod * 2);
        for (auto & x : data) x = (long)r.below(511) - 255;
        covfie::field<B> base(covfie::make_parameter_pack(std::move(ext), typename B::backend_t::configuration_t{prod}));
        typename covfie::field<B>::view_t bv(base);
        auto flat = [&](const std::vector<long> & c) { std::size_t idx = 0; for (std::size_t k = 0; k < N; ++k) idx = idx * e[k] + c[k]; return idx; };
        std::vector<long> c(N, 0);
        for (std::size_t cell = 0; cell < prod; ++cell) {
            std::size_t rest = cell;
            for (std::size_t k = N; k-- > 0;) { c[k] = rest % e[k]; rest /= e[k]; }
            covfie::array::array<std::size_t, N> cc; for (std::size_t k = 0; k < N; ++k) cc[k] = c[k];
            bv.at(cc)[0] = (S)data[2 * cell]; bv.at(cc)[1] = (S)data[2 * cell + 1];
        }
        covfie::field<L> f(base);
        typename covfie::field<L>::view_t v(f);
        for (int s = 0; s < 6; ++s) {
            std::vector<long> i(N), fr(N);
            covfie::array::array<P, N> x;
            for (std::size_t k = 0; k < N; ++k) {
                i[k] = (long)r.below(e[k] - 1);
                long sel = (long)r.below(5);
                fr[k] = sel == 0 ? 0 : (sel == 1 ? D - 1 : (long)r.below(D));
                x[k] = (P)i[k] + (P)fr[k] / (P)D;
            }
            auto res = v.at(x);
            long DN = 1; for (std::size_t k = 0; k < N; ++k) DN *= D;
            std::vector<std::vector<long>> corners;   // corners[b] for b in 0..2^N-1, bit k-1 of b = offset on axis k
            for (long b = 0; b < (1L << N); ++b) {
                std::vector<long> cc(N); for (std::size_t k = 0; k < N; ++k) cc[k] = i[k] + ((b >> k) & 1);
                corners.push_back({data[2 * flat(cc)], data[2 * flat(cc) + 1]});
            }
            std::vector<long> num;
            bool exact = true;
            for (int q = 0; q < 2; ++q) { double z = (double)res[q] * (double)DN; if (z != std::floor(z)) exact = false; num.push_back((long)z); }
            out << json({{"e", "lin"}, {"n", N}, {"D", D}, {"f", fr}, {"corners", corners}, {"num", num}, {"integral", exact},
                         {"coord", tname<P>()}, {"store", tname<S>()}}).dump() << "\n";
            ++events;
        }
    }
}

int main(int argc, char ** argv) {
    install_terminate();
    std::string mode = argv[1];
    if (mode == "replay") {
        std::map<std::vector<long>, json> grids;
        std::vector<json> all;
        for (int a = 2; a < argc; ++a) for (auto & c : read_ndjson(argv[a])) { if (c["kind"] == "grid") grids[c["ext"].get<std::vector<long>>()] = c; all.push_back(c); }
        for (auto & c : all) {
            int n = c["n"].get<int>();
            if (VF_N != 0 && n != VF_N) continue;
            ++g_cases;
            switch (n) {
#if VF_N == 0 || VF_N == 1
                case 1: run_n<1>(c, grids); break;
#endif
#if VF_N == 0 || VF_N == 2
                case 2: run_n<2>(c, grids); break;
#endif
#if VF_N == 0 || VF_N == 3
                case 3: run_n<3>(c, grids); break;
#endif
#if VF_N == 0 || VF_N == 4
                case 4: run_n<4>(c, grids); break;
#endif
#if VF_N == 0 || VF_N == 5
                case 5: run_n<5>(c, grids); break;
#endif
            }
        }
        summary();
    } else if (mode == "lattice") {
        // C03: "at lattice points it returns the stored value exactly (after conversion to the coordinate precision when that
        // is the narrower one)".  Cases (double d, float Narrow(d)) come from spec/FloatMC.tla as 16-bit limbs: a double-stored
        // field interpolated with float coordinates must return exactly Narrow(d) at a lattice point, with double
        // coordinates exactly d.
        auto unl = [](const json & l, void * out, std::size_t n) { unsigned char b[8]; std::size_t k = 0; for (auto & x : l) { unsigned v = x.get<unsigned>(); b[k++] = v & 0xFF; b[k++] = v >> 8; } std::memcpy(out, b, n); };
        for (auto & c : read_ndjson(argv[2])) {
            if (c["kind"] != "narrow") continue;
            double d; float f; unl(c["d"], &d, 8); unl(c["f"], &f, 4);
            if (!(std::isfinite(d)) || !(std::isfinite(f))) continue;
            ++g_cases;
            using B = strided_t<1, 1, double>;
            covfie::field<B> base(covfie::make_parameter_pack(typename B::configuration_t{3ul}, typename B::backend_t::configuration_t{3ul}));
            { typename covfie::field<B>::view_t v(base); v.at(0ul)[0] = d; v.at(1ul)[0] = d; v.at(2ul)[0] = -d; }
            covfie::field<cb::linear<B, cv::vector_d<float, 1>>> lf(base);
            covfie::field<cb::linear<B, cv::vector_d<double, 1>>> ld(base);
            double gf = typename decltype(lf)::view_t(lf).at(1.f)[0];
            double gd = typename decltype(ld)::view_t(ld).at(1.0)[0];
            uint64_t a, b2, w; double wf = (double)f; std::memcpy(&a, &gf, 8); std::memcpy(&w, &wf, 8); std::memcpy(&b2, &gd, 8);
            uint64_t dd; std::memcpy(&dd, &d, 8);
            expect_eq("linear/lattice-exact/float-coordinates-double-storage", a, w, {{"d_limbs", c["d"]}, {"narrowed_limbs", c["f"]}});
            expect_eq("linear/lattice-exact/double-coordinates-double-storage", b2, dd, {{"d_limbs", c["d"]}});
        }
        summary();
    } else if (mode == "trace") {
        rng r(std::strtoull(argv[2], nullptr, 10));
        long n = std::atol(argv[3]);
        std::ofstream out(argv[4]);
        long events = 0;
#if VF_N == 0 || VF_N == 1
        trace_n<1, float, float>(r, out, n, events); trace_n<1, double, double>(r, out, n, events);
#endif
#if VF_N == 0 || VF_N == 2
        trace_n<2, float, double>(r, out, n, events); trace_n<2, double, float>(r, out, n, events);
#endif
#if VF_N == 0 || VF_N == 3
        trace_n<3, float, float>(r, out, n, events); trace_n<3, double, double>(r, out, n, events);
#endif
#if VF_N == 0 || VF_N == 4
        trace_n<4, float, float>(r, out, n, events); trace_n<4, double, float>(r, out, n, events);
#endif
#if VF_N == 0 || VF_N == 5
        trace_n<5, float, double>(r, out, n, events); trace_n<5, double, double>(r, out, n, events);
#endif
        g_cases = events;
        summary({{"events", events}});
    }
    return 0;
}
