// C17, read-back only: box configurations (clamp, out-of-range default) in EVERY order relation of their bounds per axis -
// lo < hi, lo = hi and lo > hi.  A configuration is a value: whatever the box means for lookups (an inverted box has no
// in-domain lookup, so none is performed here), the field must report exactly what it was constructed with, whichever
// constructor path built it (positional parameter pack, (configuration, backend), copy, move, conversion).
#include <covfie/core/backend/primitive/array.hpp>
#include <covfie/core/backend/transformer/backup.hpp>
#include <covfie/core/backend/transformer/clamp.hpp>
#include <covfie/core/backend/transformer/linear.hpp>
#include <covfie/core/backend/transformer/strided.hpp>
#include <covfie/core/field.hpp>
#include <covfie/core/parameter_pack.hpp>
#include "common.hpp"
using namespace vf;
namespace cb = covfie::backend;
namespace cv = covfie::vector;
using A1 = cb::array<cv::vector_d<float, 1>>;
using RS = cb::strided<cv::vector_d<std::size_t, 2>, A1>;

template <typename V> static std::vector<long> vec2(const V & v) { return {(long)v[0], (long)v[1]}; }

template <typename B, typename Cfg>
static void same(const std::string & key, const Cfg & got, long l0, long h0, long l1, long h1) {
    json ctx = {{"lo", {l0, l1}}, {"hi", {h0, h1}}};
    expect_eq(key + "/min", vec2(got.min), std::vector<long>{l0, l1}, ctx);
    expect_eq(key + "/max", vec2(got.max), std::vector<long>{h0, h1}, ctx);
}

template <typename B, typename Mk>
static void paths(const char * name, Mk mk, long l0, long h0, long l1, long h1) {
    using F = covfie::field<B>;
    std::string k = std::string("c17/box-readback/") + name;
    typename RS::configuration_t sc; sc[0] = 4; sc[1] = 3;
    ++g_cases;
    F f1(covfie::make_parameter_pack(mk(), typename RS::configuration_t(sc), typename A1::configuration_t{12}));
    same<B>(k + "/pack", f1.backend().get_configuration(), l0, h0, l1, h1);
    covfie::field<RS> inner(covfie::make_parameter_pack(typename RS::configuration_t(sc), typename A1::configuration_t{12}));
    F f2(covfie::make_parameter_pack(mk(), typename RS::owning_data_t(inner.backend())));
    same<B>(k + "/pack-over-storage", f2.backend().get_configuration(), l0, h0, l1, h1);
    typename B::owning_data_t od(mk(), typename RS::owning_data_t(inner.backend()));
    same<B>(k + "/config-backend-ctor", od.get_configuration(), l0, h0, l1, h1);
    F f3(f1);
    same<B>(k + "/copy", f3.backend().get_configuration(), l0, h0, l1, h1);
    F f4(std::move(f3));
    same<B>(k + "/move", f4.backend().get_configuration(), l0, h0, l1, h1);
    F f5(covfie::make_parameter_pack(mk(), typename RS::configuration_t(sc), typename A1::configuration_t{12}));
    f5 = f2;
    same<B>(k + "/copy-assign", f5.backend().get_configuration(), l0, h0, l1, h1);
    typename F::view_t v(f1);
    (void)v;
    same<B>(k + "/after-view", f1.backend().get_configuration(), l0, h0, l1, h1);
}

int main() {
    const long pairs[3][2] = {{1, 3}, {2, 2}, {3, 1}};
    for (auto & a : pairs) for (auto & b : pairs) {
        long l0 = a[0], h0 = a[1], l1 = b[0], h1 = b[1];
        using CL = cb::clamp<RS>;
        paths<CL>("clamp", [&] { return typename CL::configuration_t{{(std::size_t)l0, (std::size_t)l1}, {(std::size_t)h0, (std::size_t)h1}}; }, l0, h0, l1, h1);
        using BK = cb::backup<RS>;
        paths<BK>("backup", [&] { return typename BK::configuration_t{{(std::size_t)l0, (std::size_t)l1}, {(std::size_t)h0, (std::size_t)h1}, {7.f}}; }, l0, h0, l1, h1);
    }
    summary();
    return 0;
}
