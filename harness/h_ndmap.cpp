// C19: spec -> code replay of TLC-enumerated extent vectors on the real nd_map, and
// code -> spec trace recording for random larger vectors.
#include <algorithm>
#include <map>
#include <covfie/core/utility/nd_map.hpp>
#include "common.hpp"

using namespace vf;

template <std::size_t N, typename I = std::size_t>
static std::vector<std::vector<uint64_t>> run_ndmap(const std::vector<uint64_t> & ext) {
    using T = covfie::array::array<I, N>;
    T s;
    for (std::size_t k = 0; k < N; ++k) s[k] = ext[k];
    std::vector<std::vector<uint64_t>> out;
    covfie::utility::nd_map<T>(
        [&out](T t) {
            std::vector<uint64_t> v;
            for (std::size_t k = 0; k < N; ++k) v.push_back(t[k]);
            out.push_back(v);
        },
        s);
    return out;
}

// a box far too large to traverse: the callback stops the traversal (by throwing) after `limit' invocations
struct stop_traversal {};
template <std::size_t N>
static std::vector<std::vector<uint64_t>> run_prefix(const std::vector<uint64_t> & ext, std::size_t limit, bool & returned) {
    using T = covfie::array::array<std::size_t, N>;
    T s;
    for (std::size_t k = 0; k < N; ++k) s[k] = ext[k];
    std::vector<std::vector<uint64_t>> out;
    returned = false;
    try {
        covfie::utility::nd_map<T>(
            [&out, limit](T t) {
                std::vector<uint64_t> v;
                for (std::size_t k = 0; k < N; ++k) v.push_back(t[k]);
                out.push_back(v);
                if (out.size() >= limit) throw stop_traversal{};
            },
            s);
        returned = true;
    } catch (const stop_traversal &) {}
    return out;
}

static std::vector<std::vector<uint64_t>> run_any(const std::vector<uint64_t> & ext) {
    switch (ext.size()) {
        case 1: return run_ndmap<1>(ext);
        case 2: return run_ndmap<2>(ext);
        case 3: return run_ndmap<3>(ext);
        case 4: return run_ndmap<4>(ext);
        case 5: return run_ndmap<5>(ext);
        case 6: return run_ndmap<6>(ext);
    }
    std::cerr << "unsupported dimension\n";
    std::exit(3);
}

int main(int argc, char ** argv) {
    install_terminate();
    std::string mode = argv[1];
    if (mode == "replay") {
        auto cases = read_ndjson(argv[2]);
        std::map<std::vector<uint64_t>, const json *> by_ext;
        for (auto & c : cases) by_ext[c["ext"].get<std::vector<uint64_t>>()] = &c;
        auto check = [&](const std::vector<std::vector<uint64_t>> & got, const json & c, const std::string & how) {
            std::vector<uint64_t> ext = c["ext"].get<std::vector<uint64_t>>();
            json ctx = {{"ext", ext}, {"how", how}};
            expect_eq("ndmap/count", (uint64_t)got.size(), c["count"].get<uint64_t>(), ctx);
            // multiset comparison: order is not part of the property
            std::map<std::vector<uint64_t>, long> ms;
            for (auto & t : got) ms[t]++;
            for (auto & t : c["box"]) ms[t.get<std::vector<uint64_t>>()]--;
            bool ok = true;
            for (auto & [t, n] : ms) if (n != 0) ok = false;
            ++g_checks;
            if (!ok) {
                json bad = json::array();
                for (auto & [t, n] : ms) if (n != 0 && bad.size() < 5) bad.push_back({{"tuple", t}, {"surplus", n}});
                mismatch("ndmap/multiset", {{"ext", ext}, {"how", how}, {"differences", bad}});
            }
        };
        for (auto & c : cases) {
            ++g_cases;
            std::vector<uint64_t> ext = c["ext"].get<std::vector<uint64_t>>();
            check(run_any(ext), c, "size_t indices");
            // a second call of the same shape class right away: the same volume, the extents reversed (a stale per-thread or
            // static memo of "the last box" would show here)
            std::vector<uint64_t> rev(ext.rbegin(), ext.rend());
            auto it = by_ext.find(rev);
            if (it != by_ext.end() && rev != ext) check(run_any(rev), *it->second, "called right after the box with reversed extents");
            // narrower index types
            if (ext.size() == 2) { check(run_ndmap<2, uint8_t>(ext), c, "uint8_t indices"); check(run_ndmap<2, unsigned>(ext), c, "unsigned indices"); }
            if (ext.size() == 3) check(run_ndmap<3, uint16_t>(ext), c, "uint16_t indices");
            if (ext.size() == 1) check(run_ndmap<1, int>(ext), c, "int indices");
        }
        summary();
    } else if (mode == "trace") {
        // trace <seed> <executions> <maxcells> <out>
        rng r(std::strtoull(argv[2], nullptr, 10));
        long execs = std::atol(argv[3]);
        uint64_t maxcells = std::strtoull(argv[4], nullptr, 10);
        std::ofstream out(argv[5]);
        long events = 0;
        for (long e = 0; e < execs; ++e) {
            std::size_t n = 1 + r.below(6);
            std::vector<uint64_t> ext(n);
            for (;;) {
                uint64_t prod = 1;
                for (auto & x : ext) { x = r.below(100) < 8 ? r.below(2) : 1 + r.below(n <= 2 ? 40 : (n <= 4 ? 9 : 5)); prod *= x; }
                if (prod <= maxcells) break;
            }
            out << json({{"e", "Begin"}, {"ext", ext}}).dump() << "\n";
            auto got = run_any(ext);
            for (auto & t : got) out << json({{"e", "Visit"}, {"t", t}}).dump() << "\n";
            out << json({{"e", "End"}}).dump() << "\n";
            events += 2 + (long)got.size();
            ++g_cases;
        }
        // index types narrower than size_t whose box VOLUME is a multiple of 2^bits (the extents themselves fit the type)
        auto narrow = [&](auto tag, std::vector<uint64_t> ext) {
            using I = decltype(tag);
            out << json({{"e", "Begin"}, {"ext", ext}}).dump() << "\n";
            auto got = ext.size() == 2 ? run_ndmap<2, I>(ext) : run_ndmap<3, I>(ext);
            for (auto & t : got) out << json({{"e", "Visit"}, {"t", t}}).dump() << "\n";
            out << json({{"e", "End"}}).dump() << "\n";
            events += 2 + (long)got.size(); ++g_cases;
        };
        narrow(uint8_t{}, {16, 16}); narrow(uint8_t{}, {8, 4, 8}); narrow(uint8_t{}, {32, 16});
        // boxes of 2^31 .. 2^33 cells (volumes that are multiples of 2^32 among them): the first 1500 invocations must happen,
        // name distinct tuples of the box, and nd_map must not return before them
        auto huge = [&](std::vector<uint64_t> ext) {
            bool returned = false;
            std::vector<std::vector<uint64_t>> got;
            switch (ext.size()) { case 2: got = run_prefix<2>(ext, 1500, returned); break; case 3: got = run_prefix<3>(ext, 1500, returned); break;
                                  case 4: got = run_prefix<4>(ext, 1500, returned); break; default: got = run_prefix<5>(ext, 1500, returned); }
            out << json({{"e", "Begin"}, {"ext", ext}}).dump() << "\n";
            for (auto & t : got) out << json({{"e", "Visit"}, {"t", t}}).dump() << "\n";
            out << json({{"e", "Stopped"}, {"k", got.size()}, {"returned", returned}}).dump() << "\n";
            events += 2 + (long)got.size(); ++g_cases;
        };
        huge({65536, 65536}); huge({1u << 30, 4}); huge({3, 1u << 20, 1u << 12}); huge({128, 128, 64, 64, 64}); huge({65536, 65537}); huge({7, 1u << 15, 1u << 15, 3});
        summary({{"events", events}});
    }
    return 0;
}
