// Host-only stand-in for the small part of the CUDA runtime API that covfie's cuda_device_array uses, so that the
// host->device->host conversion paths can be COMPILED AND EXECUTED in a sandbox without CUDA ("device" memory is host
// memory).  Reduced assurance by construction: it says nothing about real device behaviour.
#pragma once
#include <cstdlib>
#include <cstring>
#include <cstddef>
enum cudaError_t { cudaSuccess = 0, cudaErrorMemoryAllocation = 2, cudaErrorInvalidValue = 1 };
enum cudaMemcpyKind { cudaMemcpyHostToHost = 0, cudaMemcpyHostToDevice = 1, cudaMemcpyDeviceToHost = 2, cudaMemcpyDeviceToDevice = 3, cudaMemcpyDefault = 4 };
inline long & vf_cuda_live() { static long n = 0; return n; }
inline cudaError_t cudaMalloc(void ** p, std::size_t n) { *p = std::malloc(n ? n : 1); if (!*p) return cudaErrorMemoryAllocation; ++vf_cuda_live(); return cudaSuccess; }
template <typename T> inline cudaError_t cudaMalloc(T ** p, std::size_t n) { return cudaMalloc(reinterpret_cast<void **>(p), n); }
inline cudaError_t cudaFree(void * p) { if (p) { --vf_cuda_live(); std::free(p); } return cudaSuccess; }
inline cudaError_t cudaMemcpy(void * d, const void * s, std::size_t n, cudaMemcpyKind) { if (n && (!d || !s)) return cudaErrorInvalidValue; if (n) std::memcpy(d, s, n); return cudaSuccess; }
inline const char * cudaGetErrorString(cudaError_t e) { return e == cudaSuccess ? "no error" : "error"; }
