// Shared helpers of the conformance harness programs.  Kept deliberately dumb:
// nothing in here computes an expected value; expectations come from TLC.
#pragma once
#include <cstdint>
#include <cstdio>
#include <cstdlib>
#include <cstring>
#include <fstream>
#include <iostream>
#include <sstream>
#include <string>
#include <vector>
#include <exception>
#include <unistd.h>

#include <nlohmann/json.hpp>

namespace vf {
using json = nlohmann::json;

struct rng {  // splitmix64: deterministic, seedable, no library state
    uint64_t s;
    explicit rng(uint64_t seed) : s(seed * 0x9E3779B97F4A7C15ull + 0x1234567ull) {}
    uint64_t next() {
        uint64_t z = (s += 0x9E3779B97F4A7C15ull);
        z = (z ^ (z >> 30)) * 0xBF58476D1CE4E5B9ull;
        z = (z ^ (z >> 27)) * 0x94D049BB133111EBull;
        return z ^ (z >> 31);
    }
    uint64_t below(uint64_t n) { return n ? next() % n : 0; }
    uint64_t range(uint64_t lo, uint64_t hi) { return lo + below(hi - lo + 1); }
};

inline long g_checks = 0, g_mismatches = 0, g_cases = 0;

inline void mismatch(const std::string & key, const json & detail) {
    ++g_mismatches;
    if (g_mismatches <= 40) {
        std::cout << "MISMATCH " << key << " " << detail.dump() << "\n";
    }
}

template <typename A, typename B>
inline bool expect_eq(const std::string & key, const A & got, const B & want, const json & ctx) {
    ++g_checks;
    if (!(got == want)) {
        json d = ctx;
        d["got"] = got;
        d["want"] = want;
        mismatch(key, d);
        return false;
    }
    return true;
}

inline void summary(json extra = json::object()) {
    extra["cases"] = g_cases;
    extra["checks"] = g_checks;
    extra["mismatches"] = g_mismatches;
    std::cout << "SUMMARY " << extra.dump() << std::endl;
}

inline std::vector<json> read_ndjson(const std::string & path) {
    std::vector<json> out;
    std::ifstream f(path);
    if (!f) {
        std::cerr << "cannot open " << path << std::endl;
        std::exit(3);
    }
    std::string line;
    while (std::getline(f, line)) {
        if (!line.empty()) {
            out.push_back(json::parse(line));
        }
    }
    return out;
}

// uncaught exceptions must not truncate the output protocol silently
inline void install_terminate() {
    std::set_terminate([] {
        std::cout << "MISMATCH crash/terminate {\"what\":\"std::terminate called (uncaught exception)\"}\n";
        std::cout.flush();
        _exit(70);
    });
}
}
