// C16: thread programs on real threads.
//   replay <cases> [stride offset]  TLC-enumerated two/three-thread programs (lookups + writes to disjoint coordinates) run on
//                                   real threads released together; every thread's results must equal the specification's
//                                   sequential results
//   stress <seed> <T>               T threads, shared and per-thread views, every storage order and interpolator incl. the
//                                   4-D generic linear branch; per-thread digests must equal the sequential run
// Built with -fsanitize=thread: happens-before analysis reports any hidden shared state whatever the interleaving.
#include <atomic>
#include <thread>
#include <covfie/core/backend/primitive/array.hpp>
#include <covfie/core/backend/transformer/hilbert.hpp>
#include <covfie/core/algebra/affine.hpp>
#include <covfie/core/backend/transformer/affine.hpp>
#include <covfie/core/backend/transformer/backup.hpp>
#include <covfie/core/backend/transformer/clamp.hpp>
#include <covfie/core/backend/transformer/shuffle.hpp>
#include <covfie/core/backend/transformer/linear.hpp>
#include <covfie/core/backend/transformer/morton.hpp>
#include <covfie/core/backend/transformer/nearest_neighbour.hpp>
#include <covfie/core/backend/transformer/strided.hpp>
#include <covfie/core/field.hpp>
#include "common.hpp"
using namespace vf;
namespace cb = covfie::backend;
namespace cv = covfie::vector;
using A1 = cb::array<cv::vector_d<float, 1>>;
template <std::size_t N> using In = cv::vector_d<std::size_t, N>;

// an interpolating field over a copy of f's storage
template <typename IB, typename LB>
static covfie::field<IB> wrap(const covfie::field<LB> & f) {
    return covfie::field<IB>(covfie::make_parameter_pack(typename IB::configuration_t{}, typename LB::owning_data_t(f.backend())));
}

struct spin_barrier {
    std::atomic<int> n; explicit spin_barrier(int k) : n(k) {}
    void wait() { n.fetch_sub(1); while (n.load() > 0) std::this_thread::yield(); }
};

template <typename LB>   // LB: layout backend over A1, 2-D
static void run_case(const json & c) {
    using F = covfie::field<LB>;
    using NN = cb::nearest_neighbour<LB>;
    using LI = cb::linear<LB>;
    auto ext = c["ext"].get<std::vector<std::size_t>>();
    std::string interp = c["interp"];
    std::size_t T = c["prog"].size();
    // storage cell i holds 100 + i (the specification's initial memory): size through a conversion, contents through the array view
    using RS = cb::strided<In<2>, A1>;
    covfie::field<RS> rs(covfie::make_parameter_pack(typename RS::configuration_t{ext[0], ext[1]}, typename A1::configuration_t{ext[0] * ext[1]}));
    F f(rs);
    { typename A1::non_owning_data_t raw(f.backend().get_backend()); std::size_t n = f.backend().get_backend().get_configuration()[0];
      for (std::size_t i = 0; i < n; ++i) raw.at(i)[0] = (float)(100 + i); }
    covfie::field<NN> fn = wrap<NN>(f);
    covfie::field<LI> fl = wrap<LI>(f);
    // NOTE: fn / fl own copies; writers and readers must share ONE storage: use views of f for direct, and build the
    // interpolating views over f's storage by constructing them from f's owning data is a copy - so for interpolated
    // programs all threads (readers and writers) go through the interpolating field's own storage.
    typename F::view_t vd(f);
    typename covfie::field<NN>::view_t vn(fn);
    typename covfie::field<LI>::view_t vl(fl);
    // writers write through a view of the storage-order layer of the SAME field the readers interpolate
    typename LB::non_owning_data_t wd_direct(f.backend());
    typename LB::non_owning_data_t wd_nn(fn.backend().get_backend());
    typename LB::non_owning_data_t wd_li(fl.backend().get_backend());
    std::vector<std::vector<double>> got(T);
    spin_barrier bar((int)T);
    std::vector<std::thread> th;
    for (std::size_t t = 0; t < T; ++t) {
        th.emplace_back([&, t] {
            bar.wait();
            for (auto & o : c["prog"][t]) {
                std::size_t c0 = o["c"][0].get<std::size_t>(), c1 = o["c"][1].get<std::size_t>();
                if (o["op"] == "write") {
                    float v = (float)o["v"].get<long>();
                    if (interp == "direct") wd_direct.at({c0, c1})[0] = v; else if (interp == "nearest") wd_nn.at({c0, c1})[0] = v; else wd_li.at({c0, c1})[0] = v;
                } else if (interp == "direct") got[t].push_back(vd.at(c0, c1)[0]);
                else if (interp == "nearest") got[t].push_back(vn.at((float)c0 + 0.25f, (float)c1 - 0.25f)[0]);
                else got[t].push_back(vl.at((float)c0 + 0.5f, (float)c1 + 0.5f)[0]);
            }
        });
    }
    for (auto & x : th) x.join();
    for (std::size_t t = 0; t < T; ++t) {
        auto reads = c["expect"][t].get<std::vector<double>>();
        std::vector<double> want;
        if (interp == "linear") { for (std::size_t k = 0; k + 3 < reads.size(); k += 4) want.push_back((reads[k] + reads[k + 1] + reads[k + 2] + reads[k + 3]) / 4.0); }
        else want = reads;
        expect_eq("threads/results/" + c["layout"].get<std::string>() + "/" + interp, got[t], want, {{"thread", t + 1}, {"prog", c["prog"]}});
    }
}

template <typename B, typename Mk>
static uint64_t digest_run(const covfie::field<B> & f, Mk mk, int T, bool shared_view, uint64_t seed, std::vector<uint64_t> & per_thread) {
    using V = typename covfie::field<B>::view_t;
    V shared(f);
    per_thread.assign(T, 0);
    spin_barrier bar(T);
    std::vector<std::thread> th;
    for (int t = 0; t < T; ++t) th.emplace_back([&, t] {
        V own(f);
        const V & v = shared_view ? shared : own;
        rng r(seed * 1000 + t);
        bar.wait();
        uint64_t h = 1469598103934665603ull;
        for (int k = 0; k < 3000; ++k) { auto x = mk(r); auto res = v.at(x);
            for (std::size_t q = 0; q < sizeof(res) / sizeof(res[0]); ++q) { float z = (float)res[q]; uint32_t b; std::memcpy(&b, &z, 4); h = (h ^ b) * 1099511628211ull; } }
        per_thread[t] = h;
    });
    for (auto & x : th) x.join();
    uint64_t all = 0; for (auto h : per_thread) all ^= h; return all;
}

template <typename B, typename Mk>
static void stress(const char * name, const covfie::field<B> & f, Mk mk, int T, uint64_t seed) {
    std::vector<uint64_t> seq, par;
    // sequential reference: the same per-thread programs executed one after another
    seq.assign(T, 0);
    for (int t = 0; t < T; ++t) { std::vector<uint64_t> one; typename covfie::field<B>::view_t v(f); rng r(seed * 1000 + t); uint64_t h = 1469598103934665603ull;
        for (int k = 0; k < 3000; ++k) { auto x = mk(r); auto res = v.at(x);
            for (std::size_t q = 0; q < sizeof(res) / sizeof(res[0]); ++q) { float z = (float)res[q]; uint32_t b; std::memcpy(&b, &z, 4); h = (h ^ b) * 1099511628211ull; } } seq[t] = h; }
    for (bool sh : {true, false}) {
        digest_run(f, mk, T, sh, seed, par);
        ++g_cases;
        expect_eq(std::string("threads/digest/") + name + (sh ? "/shared-view" : "/per-thread-views"), par, seq, {{"threads", T}});
    }
}

template <std::size_t N, typename LB>
static covfie::field<LB> filled(std::vector<std::size_t> ext) {
    using RS = cb::strided<In<N>, A1>;
    typename RS::configuration_t cfg; std::size_t prod = 1;
    for (std::size_t k = 0; k < N; ++k) { cfg[k] = ext[k]; prod *= ext[k]; }
    covfie::field<RS> rs(covfie::make_parameter_pack(std::move(cfg), typename A1::configuration_t{prod}));
    { typename A1::non_owning_data_t raw(rs.backend().get_backend()); for (std::size_t i = 0; i < prod; ++i) raw.at(i)[0] = (float)((i * 37) % 101) + 0.5f; }
    if constexpr (std::is_same_v<LB, RS>) return rs; else return covfie::field<LB>(rs);
}

template <std::size_t N, typename LB>
static void stress_layout(const char * name, std::vector<std::size_t> ext, int T, uint64_t seed) {
    auto f = filled<N, LB>(ext);
    auto mki = [&](rng & r) { covfie::array::array<std::size_t, N> c; for (std::size_t k = 0; k < N; ++k) c[k] = r.below(ext[k]); return c; };
    stress((std::string(name) + "/direct").c_str(), f, mki, T, seed);
    auto fn = wrap<cb::nearest_neighbour<LB>>(f);
    auto mkn = [&](rng & r) { covfie::array::array<float, N> c; for (std::size_t k = 0; k < N; ++k) c[k] = (float)r.below(ext[k]) + 0.25f; return c; };
    stress((std::string(name) + "/nearest").c_str(), fn, mkn, T, seed);
    auto fl = wrap<cb::linear<LB>>(f);
    auto mkl = [&](rng & r) { covfie::array::array<float, N> c; for (std::size_t k = 0; k < N; ++k) c[k] = (float)r.below(ext[k] - 1) + (float)r.below(4) / 4.f; return c; };
    stress((std::string(name) + "/linear").c_str(), fl, mkl, T, seed);
}

// interpolation with WIDE outputs in 4 and 5 dimensions: 2^N corner vectors of M scalars are gathered per lookup (hundreds of
// bytes to kilobytes of temporaries) - per-lookup scratch space must be private to the call whatever the build flags
template <std::size_t N, typename S, std::size_t M>
static void stress_wide(const char * name, std::vector<std::size_t> ext, int T, uint64_t seed) {
    using AW = cb::array<cv::vector_d<S, M>>;
    using RS = cb::strided<In<N>, AW>;
    typename RS::configuration_t cfg; std::size_t prod = 1;
    for (std::size_t k = 0; k < N; ++k) { cfg[k] = ext[k]; prod *= ext[k]; }
    covfie::field<RS> rs(covfie::make_parameter_pack(std::move(cfg), typename AW::configuration_t{prod}));
    { typename AW::non_owning_data_t raw(rs.backend().get_backend()); for (std::size_t i = 0; i < prod; ++i) for (std::size_t q = 0; q < M; ++q) raw.at(i)[q] = (S)(((i * 37 + q * 11) % 101) + 0.5); }
    auto fl = wrap<cb::linear<RS>>(rs);
    auto mkl = [&](rng & r) { covfie::array::array<float, N> c; for (std::size_t k = 0; k < N; ++k) c[k] = (float)r.below(ext[k] - 1) + (float)r.below(4) / 4.f; return c; };
    stress((std::string(name) + "/linear").c_str(), fl, mkl, T, seed);
    auto fn = wrap<cb::nearest_neighbour<RS>>(rs);
    auto mkn = [&](rng & r) { covfie::array::array<float, N> c; for (std::size_t k = 0; k < N; ++k) c[k] = (float)r.below(ext[k]) + 0.25f; return c; };
    stress((std::string(name) + "/nearest").c_str(), fn, mkn, T, seed);
}

// two fields of the same TYPE but different extents used concurrently (a per-type static cache keyed on "the last field seen"
// would show here and nowhere else)
template <std::size_t N, typename LB>
static void stress_two_fields(const char * name, std::vector<std::size_t> e1, std::vector<std::size_t> e2, int T, uint64_t seed) {
    auto f1 = filled<N, LB>(e1);
    auto f2 = filled<N, LB>(e2);
    auto body = [&](int t, std::vector<uint64_t> & outv, spin_barrier * bar) {
        typename covfie::field<LB>::view_t v1(f1), v2(f2);
        rng r(seed * 77 + t);
        if (bar) bar->wait();
        uint64_t h = 1469598103934665603ull;
        for (int k = 0; k < 4000; ++k) {
            bool first = ((k + t) % 2) == 0;
            auto & ext = first ? e1 : e2;
            covfie::array::array<std::size_t, N> c; for (std::size_t d = 0; d < N; ++d) c[d] = r.below(ext[d]);
            float z = first ? v1.at(c)[0] : v2.at(c)[0];
            uint32_t b; std::memcpy(&b, &z, 4); h = (h ^ b) * 1099511628211ull;
        }
        outv[t] = h;
    };
    std::vector<uint64_t> seq(T), par(T);
    for (int t = 0; t < T; ++t) body(t, seq, nullptr);
    spin_barrier bar(T);
    std::vector<std::thread> th;
    for (int t = 0; t < T; ++t) th.emplace_back([&, t] { body(t, par, &bar); });
    for (auto & x : th) x.join();
    ++g_cases;
    expect_eq(std::string("threads/two-fields/") + name, par, seq, {{"threads", T}});
}

// a field created from its extents only; the FIRST views are created inside the worker threads, which fill disjoint slabs
// through their own views and then read everything back (lazy initialisation behind the first view would race here)
template <typename LB>
static void stress_fresh_fill(const char * name, std::size_t ex, std::size_t ey, int T) {
    using RS = cb::strided<In<2>, A1>;
    for (int round = 0; round < 40; ++round) {
        covfie::field<RS> f(covfie::make_parameter_pack(typename RS::configuration_t{ex, ey}, typename A1::configuration_t{ex * ey}));
        spin_barrier bar(T);
        std::vector<std::thread> th;
        for (int t = 0; t < T; ++t) th.emplace_back([&, t] {
            bar.wait();
            typename covfie::field<RS>::view_t v(f);          // first view of this field is made here
            for (std::size_t x = (std::size_t)t; x < ex; x += (std::size_t)T) for (std::size_t y = 0; y < ey; ++y) v.at(x, y)[0] = (float)(x * 100 + y);
        });
        for (auto & x : th) x.join();
        typename covfie::field<RS>::view_t v(f);
        long bad = 0;
        for (std::size_t x = 0; x < ex; ++x) for (std::size_t y = 0; y < ey; ++y) if (v.at(x, y)[0] != (float)(x * 100 + y)) ++bad;
        ++g_cases;
        expect_eq(std::string("threads/fresh-field-parallel-fill/") + name, bad, 0L, {{"threads", T}, {"round", round}});
    }
}

int main(int argc, char ** argv) {
    install_terminate();
    std::string mode = argv[1];
    if (mode == "replay") {
        long stride = argc > 3 ? std::atol(argv[3]) : 1, offset = argc > 4 ? std::atol(argv[4]) : 0, ln = 0;
        for (auto & c : read_ndjson(argv[2])) {
            if ((ln++ % stride) != offset) continue;
            ++g_cases;
            std::string l = c["layout"];
            if (l == "strided") run_case<cb::strided<In<2>, A1>>(c);
            else if (l == "morton") run_case<cb::morton<In<2>, A1, true>>(c);
            else if (l == "morton_portable") run_case<cb::morton<In<2>, A1, false>>(c);
            else run_case<cb::hilbert<In<2>, A1>>(c);
        }
        summary();
    } else if (mode == "stress") {
        uint64_t seed = std::strtoull(argv[2], nullptr, 10);
        int T = std::atoi(argv[3]);
        stress_layout<1, cb::strided<In<1>, A1>>("strided1", {40}, T, seed);
        stress_layout<2, cb::strided<In<2>, A1>>("strided2", {9, 7}, T, seed);
        stress_layout<2, cb::morton<In<2>, A1, true>>("morton2", {9, 7}, T, seed);
        stress_layout<2, cb::morton<In<2>, A1, false>>("mortonp2", {6, 11}, T, seed);
        stress_layout<2, cb::hilbert<In<2>, A1>>("hilbert2", {16, 12}, T, seed);
        stress_layout<3, cb::strided<In<3>, A1>>("strided3", {5, 4, 6}, T, seed);
        stress_layout<3, cb::morton<In<3>, A1, true>>("morton3", {5, 4, 6}, T, seed);
        stress_layout<4, cb::strided<In<4>, A1>>("strided4", {6, 5, 4, 3}, T, seed);
        stress_layout<4, cb::morton<In<4>, A1, false>>("mortonp4", {3, 4, 3, 5}, T, seed);
        stress_two_fields<2, cb::hilbert<In<2>, A1>>("hilbert2", {7, 6}, {13, 11}, T, seed);
        stress_two_fields<2, cb::morton<In<2>, A1, true>>("morton2", {7, 6}, {13, 11}, T, seed);
        stress_two_fields<2, cb::strided<In<2>, A1>>("strided2", {7, 6}, {13, 11}, T, seed);
        stress_two_fields<3, cb::morton<In<3>, A1, false>>("mortonp3", {3, 2, 5}, {9, 4, 2}, T, seed);
        stress_fresh_fill<void>("strided2", 48, 40, T);
        // sides beyond 2^8: any per-view or per-type memo of "the last tile / block visited" would be shared here
        stress_layout<2, cb::hilbert<In<2>, A1>>("hilbert2-700x530", {700, 530}, T, seed);
        stress_layout<2, cb::morton<In<2>, A1, false>>("mortonp2-600x3", {600, 3}, T, seed);
        {   // an affine layer above the interpolator (the coordinate map is applied per lookup, by every thread)
            using RS3 = cb::strided<In<3>, A1>;
            auto f3 = filled<3, RS3>({6, 5, 7});
            using AL = cb::affine<cb::linear<RS3>>;
            auto a = covfie::algebra::affine<3>::translation(0.25f, 0.5f, 0.75f);
            covfie::field<AL> fa(covfie::make_parameter_pack(typename AL::configuration_t(a), std::monostate{}, typename RS3::owning_data_t(f3.backend())));
            auto mka = [&](rng & r) { covfie::array::array<float, 3> c; c[0] = (float)r.below(5) + 0.25f * (float)r.below(3) - 0.25f + 0.25f; c[1] = (float)r.below(4) + 0.25f * (float)r.below(2); c[2] = (float)r.below(6) + 0.125f * (float)r.below(2);
                                      c[0] = std::min(c[0], 4.5f); c[1] = std::min(c[1], 3.25f); c[2] = std::min(c[2], 5.0f); return c; };
            stress("affine-linear-strided3", fa, mka, T, seed);
        }
        {   // the coordinate-mapping layers between the lookup and the storage order (clamp, out-of-range default, permutation):
            // a lookup through them is a pure function of the coordinate, so a view shared by all threads must behave as
            // per-thread views do (a memo of "the last coordinate" in a const view would be shared state)
            using RS2 = cb::strided<In<2>, A1>;
            auto f2 = filled<2, RS2>({9, 7});
            using CL = cb::clamp<RS2>;
            covfie::field<CL> fc(covfie::make_parameter_pack(typename CL::configuration_t{{0, 0}, {8, 6}}, typename RS2::owning_data_t(f2.backend())));
            auto mkc = [&](rng & r) { covfie::array::array<std::size_t, 2> c; c[0] = r.below(20); c[1] = r.below(15); return c; };
            stress("clamp-strided2", fc, mkc, T, seed);
            using BK = cb::backup<RS2>;
            covfie::field<BK> fb(covfie::make_parameter_pack(typename BK::configuration_t{{1, 1}, {7, 5}, {-3.f}}, typename RS2::owning_data_t(f2.backend())));
            stress("backup-strided2", fb, mkc, T, seed);
            using SH = cb::shuffle<RS2, std::index_sequence<1, 0>>;
            covfie::field<SH> fs(covfie::make_parameter_pack(typename SH::configuration_t{}, typename RS2::owning_data_t(f2.backend())));
            auto mks = [&](rng & r) { covfie::array::array<std::size_t, 2> c; c[0] = r.below(7); c[1] = r.below(9); return c; };
            stress("shuffle-strided2", fs, mks, T, seed);
            using LC = cb::linear<CL>;
            covfie::field<LC> flc(covfie::make_parameter_pack(typename LC::configuration_t{}, typename CL::configuration_t{{0, 0}, {8, 6}}, typename RS2::owning_data_t(f2.backend())));
            auto mklc = [&](rng & r) { covfie::array::array<float, 2> c; c[0] = (float)r.below(14) + 0.25f * (float)r.below(4); c[1] = (float)r.below(11) + 0.5f * (float)r.below(2); return c; };
            stress("linear-clamp-strided2", flc, mklc, T, seed);
        }
        stress_wide<4, double, 3>("strided4-double3", {4, 3, 5, 3}, T, seed);
        stress_wide<4, float, 4>("strided4-float4", {3, 4, 3, 4}, T, seed);
        stress_wide<5, float, 3>("strided5-float3", {3, 2, 3, 2, 3}, T, seed);
        stress_wide<3, double, 4>("strided3-double4", {5, 4, 3}, T, seed);
        summary();
    }
    return 0;
}
