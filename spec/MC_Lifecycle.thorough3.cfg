SPECIFICATION Spec
CONSTANTS
  Slots <- Slots3
  Types <- TypesA
  ExtChoices <- Ext12x
  Vals = {0, 1}
  MaxOps = 5
  AssignImpl = "fixed"
  WM = 8
  ConstructSlots <- Slots3
  Unbounded = FALSE
  Canon = FALSE
  LinK = 0
  ViewIds <- NoViews
  Ops <- AllOps
INVARIANTS TypeOK Refines NoAlias NoUseAfterFree NoDoubleFree NoLeak ConfigKept RoundTrip
PROPERTIES SourceUnchanged
CHECK_DEADLOCK FALSE
