---------------------------- MODULE Trace_Golden ----------------------------
(* TLC as an independent reader of real files: each event carries the limbs   *)
(* of a committed golden file (or of a dump just produced by the real         *)
(* library) and the catalogue type it was written from.  The stream must be   *)
(* in the language of the format for that type, re-serialise to itself, and   *)
(* its headers and footers must nest.                                         *)
EXTENDS BinFormatMC

Log == ndJsonDeserialize(IOEnv.VF_TRACE)
VARIABLES l
tvars == <<l, kase>>
TInit == l = 1 /\ kase = [kind |-> "trace"]
IsEvent(e) == l <= Len(Log) /\ Log[l].e = e /\ l' = l + 1

TGolden == /\ IsEvent("golden")
           /\ Log[l].odd = 0
           /\ LET p == Parse(TypeCat[Log[l].tid], Log[l].limbs) IN
                /\ p.ok /\ p.rest = <<>>
                /\ Ser(p.layers) = Log[l].limbs
                /\ Balanced(Log[l].limbs, <<>>)
           /\ UNCHANGED kase

\* {e:"dump", tid, limbs, layers, reload_rc, reloaded}: a dump of random bit patterns produced by the real library;
\* TLC parses it independently and compares what it finds with what the harness put into the field and with what
\* the real loader read back
SameValues(p, logged) ==
  \A i \in 1..Len(p) :
     /\ ("cfg" \in DOMAIN logged[i] /\ p[i].k \notin Transparent /\ p[i].k # "array") => p[i].cfg = logged[i].cfg
     /\ (p[i].k = "array") => (p[i].count = logged[i].count /\ p[i].data = logged[i].data)
TDump == /\ IsEvent("dump")
         /\ Log[l].odd = 0 /\ Log[l].reload_rc = 0
         /\ LET p == Parse(TypeCat[Log[l].tid], Log[l].limbs) IN
              /\ p.ok /\ p.rest = <<>>
              /\ Ser(p.layers) = Log[l].limbs
              /\ Len(p.layers) = Len(Log[l].layers)
              /\ SameValues(p.layers, Log[l].layers)
              /\ SameValues(p.layers, Log[l].reloaded)
         /\ UNCHANGED kase

\* {e:"huge", layers (types + configurations, array data omitted), prefix, suffix, kbytes, rbytes, wfile, wother, samples}:
\* a dump of 10^5..10^6 vectors.  The limbs before and after the payload must be exactly what the grammar puts around a
\* payload of that count; the total length must be the grammar's; every sampled scalar must be in memory what is in the file
\* (same precision) and Widen / Narrow of it (other precision).
THuge == /\ IsEvent("huge")
         /\ Log[l].odd = 0
         /\ LET L == Log[l].layers
                a == CHOOSE i \in 1..Len(L) : L[i].k = "array"
                payloadLimbs == L[a].count * L[a].m * L[a].w
                total == Len(Log[l].prefix) + Len(Log[l].suffix) + payloadLimbs          \* in limbs (2 bytes each)
            IN /\ Ser(L) = Log[l].prefix \o Log[l].suffix
               /\ Log[l].wfile = L[a].w
               /\ total = 512 * Log[l].kbytes + (Log[l].rbytes \div 2)
               /\ \A i \in 1..Len(Log[l].samples) :
                    LET sm == Log[l].samples[i] IN
                      /\ sm.same = sm.file
                      /\ sm.other = Convert(sm.file, Log[l].wfile, Log[l].wother)
         /\ UNCHANGED kase

\* {e:"slice", axis, k, in, out}: examples/core/slice3dto2d run on a file of catalogue type 6: it loads
\* affine<linear<strided<size3, array<float3>>>>, builds a field from the inner storage object (Lifecycle!Adopt, const form),
\* copies the plane  coordinate[axis] = k  through views into a new strided<size2, array<float3>> field and dumps it.  TLC
\* parses both files and demands: extents = the two remaining extents, in order; every stored vector of the output = the
\* stored vector of the input at the coordinate with k inserted at `axis'; nothing else in the file.
SliceOutType == <<Str("strided", 2), Arr(2, 3)>>
ExtOf(cfg, n) == [d \in 1..n |-> cfg[4 * (d - 1) + 1]]              \* extents below 2^16: the low limb of each 64-bit word
TSlice ==
  /\ IsEvent("slice")
  /\ LET pin == Parse(TypeCat[6], Log[l].in)
         pout == Parse(SliceOutType, Log[l].out)
     IN /\ pin.ok /\ pin.rest = <<>> /\ pout.ok /\ pout.rest = <<>>
        /\ Ser(pout.layers) = Log[l].out
        /\ LET e3 == ExtOf(pin.layers[3].cfg, 3)
               e2 == ExtOf(pout.layers[1].cfg, 2)
               ax == Log[l].axis   k == Log[l].k
               rest == IF ax = 1 THEN <<2, 3>> ELSE IF ax = 2 THEN <<1, 3>> ELSE <<1, 2>>
               din == pin.layers[4].data   dout == pout.layers[2].data
               C3(x, y) == IF ax = 1 THEN <<k, x, y>> ELSE IF ax = 2 THEN <<x, k, y>> ELSE <<x, y, k>>
               Pos3(c) == (c[1] * e3[2] + c[2]) * e3[3] + c[3]
           IN /\ k < e3[ax]
              /\ e2 = <<e3[rest[1]], e3[rest[2]]>>
              /\ pout.layers[2].count = e2[1] * e2[2]
              /\ \A x \in 0..(e2[1] - 1), y \in 0..(e2[2] - 1), q \in 1..3 :
                    dout[(x * e2[2] + y) * 3 + q] = din[Pos3(C3(x, y)) * 3 + q]
  /\ UNCHANGED kase

TNext == TGolden \/ TDump \/ THuge \/ TSlice
TSpec == TInit /\ [][TNext]_tvars
Accepted == IF TLCGet("stats").diameter - 1 = Len(Log)
            THEN TRUE
            ELSE /\ PrintT(<<"TRACE-REJECTED matched-prefix", TLCGet("stats").diameter - 1, "of", Len(Log)>>)
                 /\ FALSE
=============================================================================
