---------------------------- MODULE LayoutCurve ----------------------------
(***************************************************************************)
(* C14: the storage orders follow their published curves.                  *)
(*  - row-major as coded = Horner form of sum_k c_k * prod_{l>k} N_l       *)
(*  - Morton: portable loop = BMI2 mask/pdep = bit interleave (first       *)
(*    coordinate least significant), for every coordinate vector below     *)
(*    2^b per axis plus boundary bit patterns up to the modelled word      *)
(*  - Hilbert on a 2^k square: xy2d as coded is inverted by the published  *)
(*    d2xy, hence a bijection onto 0..4^k-1; position 0 is the origin;     *)
(*    consecutive positions are edge-adjacent.                             *)
(* One TLC state per case (`kase'); every law is an invariant.             *)
(***************************************************************************)
EXTENDS Layout, TLC, Json, IOUtils

CONSTANTS MortonBitsPerDim,   \* function N |-> b : all coordinates below 2^b exhaustively
          HilbertKs,          \* set of k
          RowExtB,            \* function N |-> extent bound for the row-major law
          WM

HKq == 0..6
HK9 == {9}
HK10 == {10}
QB0 == <<0, 0, 0, 0>>
Row0 == <<1, 1, 1, 1>>
HKt == 0..10
QB == <<8, 4, 2, 2>>
TB == <<10, 5, 3, 2>>
RowQ == <<16, 6, 4, 3>>
RowT == <<40, 9, 5, 4>>

\* boundary patterns beyond the exhaustive range (still inside the WM-bit model word)
Patterns(N) == LET top == WM \div N IN
   {0, 1, 2, 2 ^ top - 1, 2 ^ (top - 1), 2 ^ (top - 1) - 1, 2 ^ (top - 1) + 1,
    (2 ^ top - 1) \div 3, ((2 ^ top - 1) \div 3) * 2}    \* ...0101 and ...1010

MortonCases == UNION {[1..n -> 0..(2 ^ MortonBitsPerDim[n] - 1)] : n \in 1..4}
               \cup UNION {[1..n -> Patterns(n)] : n \in 1..4}
RowCases == UNION {{<<e, c>> : c \in Box(e)} : e \in UNION {[1..n -> 1..RowExtB[n]] : n \in 1..4}}

VARIABLE kase
Init == \/ \E c \in MortonCases : kase = [kind |-> "morton", c |-> c]
        \/ \E r \in RowCases : kase = [kind |-> "row", ext |-> r[1], c |-> r[2]]
        \/ \E k \in HilbertKs : kase = [kind |-> "hilbert", k |-> k]
Next == UNCHANGED kase
Spec == Init /\ [][Next]_kase

MortonLaw == kase.kind = "morton" =>
   /\ MortonLoop(kase.c, WM) = MortonBits(kase.c, WM)
   /\ MortonPdep(kase.c, WM) = MortonBits(kase.c, WM)

RowLaw == kase.kind = "row" => RowMajor(kase.ext, kase.c) = RowMajorRef(kase.ext, kase.c)

HilbertLaw == kase.kind = "hilbert" =>
   LET n == 2 ^ kase.k
       sq == <<n, n>>
       pos == [d \in 0..(n * n - 1) |-> D2XY(n, d)]
   IN /\ \A d \in 0..(n * n - 1) : HilbertLoop(sq, pos[d]) = d        \* xy2d o d2xy = id  => bijection
      /\ \A d \in 0..(n * n - 1) : pos[d][1] < n /\ pos[d][2] < n
      /\ HilbertLoop(sq, <<0, 0>>) = 0                                 \* starts at the origin
      /\ \A d \in 0..(n * n - 2) : Adjacent(pos[d], pos[d + 1])        \* edge-adjacent successors

\* emission for the spec -> code replay ------------------------------------------
EmitCases == TLCGet("stats").generated >= 0 /\
  ndJsonSerialize(IOEnv.VF_OUT,
     SetToSeq({[kind |-> "morton", c |-> c, idx |-> MortonBits(c, WM)] : c \in MortonCases})
     \o SetToSeq({[kind |-> "hilbert", k |-> k,
                   walk |-> [d \in 1..(4 ^ k) |-> D2XY(2 ^ k, d - 1)]] : k \in {j \in HilbertKs : j <= 8}}))   \* (walks of k = 9, 10 are not emitted: 10^6 points)
=============================================================================
