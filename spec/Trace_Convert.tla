---------------------------- MODULE Trace_Convert ----------------------------
(* Trace validation of conversions between storage orders on random extents  *)
(* beyond the enumerated bound.  Each event records what the harness         *)
(* observed through the public API: how many lattice values differ from the  *)
(* array model after the conversion, after converting back, and in the       *)
(* source; whether every reported configuration is unchanged; the sizes of   *)
(* the storage allocated.  The specification (Lifecycle!Convert) demands:    *)
(* a conversion is a stuttering step on the model, and the storage of the    *)
(* target has the size the layout's constructor computes.                    *)
EXTENDS Layout, TLC, Json, IOUtils

Log == ndJsonDeserialize(IOEnv.VF_TRACE)
VARIABLES l
tvars == <<l>>
TInit == l = 1
IsEvent(e) == l <= Len(Log) /\ Log[l].e = e /\ l' = l + 1

TConv == /\ IsEvent("conv")
         /\ Log[l].from \in Layouts /\ Log[l].to \in Layouts /\ Log[l].from # Log[l].to
         /\ Applicable(Log[l].from, Log[l].ext) /\ Applicable(Log[l].to, Log[l].ext)
         /\ Log[l].mismatch = 0 /\ Log[l].back_mismatch = 0 /\ Log[l].source_mismatch = 0
         /\ Log[l].config_kept = TRUE
         /\ Log[l].size = StorageSize(Log[l].to, Log[l].ext)
         /\ Log[l].back_size = StorageSize(Log[l].from, Log[l].ext)

TNext == TConv
TSpec == TInit /\ [][TNext]_tvars
Accepted == IF TLCGet("stats").diameter - 1 = Len(Log)
            THEN TRUE
            ELSE /\ PrintT(<<"TRACE-REJECTED matched-prefix", TLCGet("stats").diameter - 1, "of", Len(Log)>>)
                 /\ FALSE
=============================================================================
