-------------------------------- MODULE Stack --------------------------------
(***************************************************************************)
(* The layer grammar, the kind system and the denotation of a stack.        *)
(*                                                                         *)
(* A stack is a sequence of layer records, outermost first, ending in a     *)
(* primitive backend.  All coordinates and values are integers in units of  *)
(* 1/S (S = 256): lattice coordinates and stored values are multiples of S, *)
(* real coordinates lie on the dyadic grid with denominator D = 4, so that  *)
(* every operation the library performs on them is exact and Eval is an     *)
(* exact oracle.                                                            *)
(*                                                                         *)
(*   Kind(stack)        bottom-up: [n, ins, m, outs, ref] input dimension-  *)
(*                      ality and scalar class, output dimensionality,      *)
(*                      scalar class and reference-ness - or "ill"          *)
(*   Eval(stack, x)     the composition of the layers' maps: each clause    *)
(*                      mentions only the layer's own configuration and     *)
(*                      Eval of the rest of the stack (C02)                 *)
(*   ConfigOf(stack, i) the configuration of the i-th layer from the        *)
(*                      outside (C17)                                       *)
(***************************************************************************)
EXTENDS Integers, Sequences, FiniteSets, FiniteSetsExt, Functions, SequencesExt, Layout

I == INSTANCE Interp      \* Corner / Weight of the linear interpolator, as coded

S == 256            \* scale of all coordinates and values
D == 4              \* denominator of real coordinates
DS == S \div D      \* one grid step in scaled units

Floating == {"float", "double"}
Integral == {"size", "uint", "int"}

Transformers == {"affine", "clamp", "backup", "shuffle", "cast", "deref", "nearest", "linear", "strided", "morton", "hilbert"}
Primitives == {"array", "constant", "identity"}

Ill(why) == [ill |-> why]
IsIll(k) == "ill" \in DOMAIN k

\* ------------------------------------------------------------------ kinds
\* kind of a primitive
PrimKind(p) ==
  CASE p.k = "array" -> [n |-> 1, ins |-> "size", m |-> p.m, outs |-> p.t, ref |-> TRUE, scalarin |-> TRUE]
    [] p.k = "constant" -> [n |-> p.n, ins |-> p.ins, m |-> p.m, outs |-> p.t, ref |-> FALSE, scalarin |-> FALSE]
    [] p.k = "identity" -> [n |-> p.n, ins |-> p.t, m |-> p.n, outs |-> p.t, ref |-> FALSE, scalarin |-> FALSE]

\* kind of layer l on top of a backend of kind b; the rules are the static_asserts / typedefs of each layer
Wrap(l, b) ==
  IF IsIll(b) THEN b
  ELSE CASE l.k \in {"strided", "morton", "hilbert"} ->
              IF l.k = "hilbert" /\ l.n # 2 THEN Ill("hilbert: number of input dimensions must be exactly two")
              ELSE IF b.n # 1 THEN Ill("storage order over a backend that is not one-dimensional")
              ELSE [b EXCEPT !.n = l.n, !.ins = l.ins, !.scalarin = FALSE]
         [] l.k = "linear" ->
              IF l.ins \notin Floating THEN Ill("linear: contravariant input must be floating point")
              ELSE IF b.outs \notin Floating THEN Ill("linear: covariant input must be floating point")
              ELSE IF l.n # b.n THEN Ill("linear: input size must equal the backend's")
              ELSE IF b.scalarin THEN Ill("interpolator over a scalar-indexed backend")
              ELSE IF b.ins \notin Integral THEN Ill("interpolator over a backend whose coordinates are not integral (outside the grammar)")
              ELSE [b EXCEPT !.ins = l.ins, !.ref = FALSE]
         [] l.k = "nearest" ->
              IF l.ins \notin Floating THEN Ill("nearest_neighbour: contravariant input must be floating point")
              ELSE IF l.n # b.n THEN Ill("nearest_neighbour: input size must equal the backend's")
              ELSE IF b.scalarin THEN Ill("interpolator over a scalar-indexed backend")
              ELSE IF b.ins \notin Integral THEN Ill("interpolator over a backend whose coordinates are not integral (outside the grammar)")
              ELSE [b EXCEPT !.ins = l.ins]
         [] l.k \in {"clamp", "affine", "shuffle"} -> IF b.scalarin THEN Ill("wrapper over a scalar-indexed backend") ELSE b
         [] l.k = "backup" -> IF b.scalarin THEN Ill("wrapper over a scalar-indexed backend") ELSE [b EXCEPT !.ref = FALSE]
         [] l.k = "deref" -> [b EXCEPT !.ref = FALSE]
         [] l.k = "cast" -> [b EXCEPT !.outs = l.t, !.ref = FALSE]

RECURSIVE Kind(_)
Kind(st) == IF Len(st) = 1 THEN PrimKind(st[1]) ELSE Wrap(Head(st), Kind(Tail(st)))

SizeOfScalar(s) == IF s \in {"double", "size"} THEN 8 ELSE 4
\* a lower bound of sizeof(non_owning_data_t): the configuration every view layer carries (padding ignored)
RECURSIVE ViewBytes(_)
ViewBytes(st) ==
  LET l == Head(st)
      inner == IF Len(st) = 1 THEN 0 ELSE ViewBytes(Tail(st))
      kin == Kind(st) IN
  CASE l.k = "array" -> 16
    [] l.k = "constant" -> l.m * SizeOfScalar(l.t)
    [] l.k = "identity" -> 1
    [] l.k \in {"strided", "morton", "hilbert"} -> 8 * l.n + inner
    [] l.k = "affine" -> kin.n * (kin.n + 1) * SizeOfScalar(kin.ins) + inner
    [] l.k = "clamp" -> 2 * kin.n * SizeOfScalar(kin.ins) + inner
    [] l.k = "backup" -> 2 * kin.n * SizeOfScalar(kin.ins) + kin.m * SizeOfScalar(kin.outs) + inner
    [] OTHER -> inner

\* an UPPER bound of sizeof(non_owning_data_t): every layer's own members rounded up to the strictest alignment (8).  By
\* induction over the nesting  sizeof(level) <= roundup8(own members) + sizeof(inner level),  so a stack whose bound is at most
\* 256 passes field_view's static_assert(sizeof(storage_t) <= 256) - the library's stated rule - including stacks that sit
\* exactly ON the limit.
Up8(n) == ((n + 7) \div 8) * 8
RECURSIVE ViewBytesUp(_)
ViewBytesUp(st) ==
  LET l == Head(st)
      inner == IF Len(st) = 1 THEN 0 ELSE ViewBytesUp(Tail(st))
      kin == Kind(st) IN
  CASE l.k = "array" -> 16
    [] l.k = "constant" -> Up8(l.m * SizeOfScalar(l.t))
    [] l.k = "identity" -> 8
    [] l.k \in {"strided", "morton", "hilbert"} -> 8 * l.n + inner
    [] l.k = "affine" -> Up8(kin.n * (kin.n + 1) * SizeOfScalar(kin.ins)) + inner
    [] l.k = "clamp" -> Up8(2 * kin.n * SizeOfScalar(kin.ins)) + inner
    [] l.k = "backup" -> Up8(2 * kin.n * SizeOfScalar(kin.ins)) + Up8(kin.m * SizeOfScalar(kin.outs)) + inner
    [] OTHER -> inner + (IF Len(st) = 1 THEN 8 ELSE 0)

WellKinded(st) == ~IsIll(Kind(st)) /\ ViewBytesUp(st) <= 256

\* ------------------------------------------------------------------ denotation
Undef == <<>>          \* (every defined result has at least one component)
\* the stored field: lattice coordinate c (unscaled), component q in 1..m  ->  stored integer
Stored(c, q) == 10 * FoldFunction(LAMBDA a, b : a + b, 0, [k \in 1..Len(c) |-> (k + 2) * c[k] * c[k] + c[k]]) + q
InExt(c, ext) == \A k \in 1..Len(ext) : c[k] >= 0 /\ c[k] < ext[k]

RECURSIVE Eval(_, _)
Eval(st, x) ==       \* x: coordinate in scaled units (sequence); result: sequence of m scaled values, or Undef
  LET l == Head(st)  rest == Tail(st) IN
  CASE l.k = "constant" -> [q \in 1..l.m |-> l.value[q] * S]
    [] l.k = "identity" -> x
    [] l.k \in {"strided", "morton", "hilbert"} ->        \* storage order over array: the array model at the logical coordinate
         LET c == [k \in 1..Len(x) |-> x[k] \div S] IN
         IF (\E k \in 1..Len(x) : x[k] % S # 0) \/ ~InExt(c, l.ext) THEN Undef
         ELSE [q \in 1..rest[1].m |-> Stored(c, q) * S]
    [] l.k = "affine" -> Eval(rest, [i \in 1..Len(x) |->
                              FoldFunction(LAMBDA a, b : a + b, 0, [j \in 1..Len(x) |-> l.A[i][j] * x[j]]) + l.A[i][Len(x) + 1] * S])
    [] l.k = "clamp" -> Eval(rest, [i \in 1..Len(x) |-> IF x[i] < l.lo[i] * S THEN l.lo[i] * S ELSE IF l.hi[i] * S < x[i] THEN l.hi[i] * S ELSE x[i]])
    [] l.k = "backup" -> IF \E i \in 1..Len(x) : x[i] < l.lo[i] * S \/ x[i] > l.hi[i] * S
                         THEN [q \in 1..Len(l.dflt) |-> l.dflt[q] * S]
                         ELSE Eval(rest, x)
    [] l.k = "shuffle" -> Eval(rest, [i \in 1..Len(x) |-> x[l.perm[i] + 1]])
    [] l.k \in {"cast", "deref"} -> Eval(rest, x)
    [] l.k = "nearest" -> IF \E i \in 1..Len(x) : (x[i] % S) * 2 = S THEN Undef            \* exact halves are not queried
                          ELSE Eval(rest, [i \in 1..Len(x) |-> S * ((x[i] + S \div 2) \div S)])
    [] l.k = "linear" ->
         IF \E i \in 1..Len(x) : x[i] < 0 \/ x[i] % DS # 0 THEN Undef
         ELSE LET N == Len(x)
                  i0 == [k \in 1..N |-> x[k] \div S]
                  f == [k \in 1..N |-> (x[k] % S) \div DS]
                  corner(n) == Eval(rest, [k \in 1..N |-> (i0[k] + I!Corner(N, n, k)) * S])
                  all == [n \in 0..(2 ^ N - 1) |-> corner(n)]
              IN IF \E n \in 0..(2 ^ N - 1) : all[n] = Undef THEN Undef
                 ELSE [q \in 1..Len(all[0]) |->
                         FoldFunction(LAMBDA a, b : a + b, 0, [n \in 0..(2 ^ N - 1) |-> I!Weight(N, n, f, D) * all[n][q]]) \div (D ^ N)]

\* number of backend lookups a single lookup performs at the innermost backend (1, or 2^N under linear; 0 when a
\* backup layer answers with its default) - used for the compositionality check "a layer evaluates what is beneath
\* it once (or 2^N times for linear) and nothing else"
RECURSIVE Lookups(_, _)
Lookups(st, x) ==
  LET l == Head(st)  rest == Tail(st) IN
  IF Len(st) = 1 THEN 1
  ELSE CASE l.k = "backup" -> IF \E i \in 1..Len(x) : x[i] < l.lo[i] * S \/ x[i] > l.hi[i] * S THEN 0 ELSE Lookups(rest, x)
         [] l.k = "linear" -> 2 ^ Len(x)
         [] l.k \in {"strided", "morton", "hilbert"} -> 1
         [] OTHER -> 1

\* configuration of every layer, outermost first (what get_configuration() must report; <<>> = std::monostate)
ConfigOfLayer(l) ==
  CASE l.k = "affine" -> [A |-> l.A]
    [] l.k = "clamp" -> [lo |-> l.lo, hi |-> l.hi]
    [] l.k = "backup" -> [lo |-> l.lo, hi |-> l.hi, dflt |-> l.dflt]
    [] l.k \in {"strided", "morton", "hilbert"} -> [ext |-> l.ext]
    [] l.k = "array" -> [count |-> l.count]
    [] l.k = "constant" -> [value |-> l.value]
    [] OTHER -> [none |-> TRUE]
Configs(st) == [i \in 1..Len(st) |-> ConfigOfLayer(st[i])]
=============================================================================
