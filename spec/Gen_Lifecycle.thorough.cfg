SPECIFICATION GSpec
CONSTANTS
  Slots <- Slots2
  Types <- TypesB
  ExtChoices <- Ext2b
  Vals = {0, 1}
  MaxOps = 5
  AssignImpl = "fixed"
  WM = 8
  ConstructSlots <- Slots2
  Unbounded = FALSE
  Canon = FALSE
  LinK = 0
  ViewIds <- NoViews
  Ops <- AllOps
  EmitAll = TRUE
VIEW View
ACTION_CONSTRAINT EmitHist
INVARIANTS TypeOK Refines NoAlias NoUseAfterFree NoDoubleFree NoLeak ConfigKept RoundTrip
CHECK_DEADLOCK FALSE
