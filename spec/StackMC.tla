------------------------------- MODULE StackMC -------------------------------
(***************************************************************************)
(* E1 and case generation for C02 / C13 / C17.                              *)
(* The program space (stacks derivable from the layer grammar) is           *)
(* enumerated in two ways:                                                  *)
(*   CoverStacks   one stack per grammar-adjacent pair of layer kinds (a    *)
(*                 over b, at the real or the integer level), completed     *)
(*                 canonically below, with N and M rotating (N # M in most) *)
(*   SampleStacks  seeded stacks of depth up to 5 drawn from the grammar    *)
(*                 [real-level wrappers]* [interpolator]? [integer-level    *)
(*                 wrappers]* [storage order]? primitive                    *)
(* For every stack TLC checks that it is well-kinded, that Eval is defined  *)
(* on a non-empty set of coordinates and obeys the one-line laws of its     *)
(* outermost layer, and emits the stack with per-layer configurations and   *)
(* the values Eval prescribes.  IllStacks is the catalogue of compositions  *)
(* that break exactly one stated kind rule.                                 *)
(***************************************************************************)
EXTENDS Stack, TLC, Json, IOUtils

CONSTANTS NSample, Seed, CoverStride,  \* CoverStride: 1 = every adjacency pair, k = every k-th (quick)
          FullDepth3               \* TRUE: additionally EVERY stack of depth <= 3 of the grammar (N, M in 1..4, float/double)

Ext(N) == CASE N = 1 -> <<6>> [] N = 2 -> <<5, 4>> [] N = 3 -> <<4, 4, 5>> [] N = 4 -> <<4, 4, 4, 4>>
Other(t) == IF t = "float" THEN "double" ELSE "float"

\* ---- layer instances; j is the position in the stack so that equal kinds at different depths differ
ArrayL(M, T, layout, N) == [k |-> "array", m |-> M, t |-> T, count |-> StorageSize(layout, Ext(N))]
LayoutL(kind, N) == [k |-> kind, n |-> N, ins |-> "size", ext |-> Ext(N)]
ConstL(N, M, T, ins) == [k |-> "constant", n |-> N, ins |-> ins, m |-> M, t |-> T, value |-> [q \in 1..M |-> 11 * q]]
IdentL(N, T) == [k |-> "identity", n |-> N, t |-> T]
ClampL(j, N) == [k |-> "clamp", lo |-> [i \in 1..N |-> (i + j) % 2], hi |-> [i \in 1..N |-> 1 + ((i + j) % 2)]]
BackupL(j, N, M) == [k |-> "backup", lo |-> [i \in 1..N |-> (i + j + 1) % 2], hi |-> [i \in 1..N |-> 2],
                     dflt |-> [q \in 1..M |-> 0 - (10 * j + q)]]
AffineL(j, N) == [k |-> "affine", A |-> [i \in 1..N |-> [c \in 1..(N + 1) |->
                     IF c = i THEN 1 ELSE IF c = N + 1 THEN (i + j) % 2 ELSE 0]]]
\* shuffles at odd positions rotate (output i reads input i+1), at even positions they swap the first two coordinates: for
\* N >= 3 the two do not commute, so a nest of shuffles distinguishes "outer after inner" from "inner after outer"
ShuffleL(j, N) == [k |-> "shuffle", perm |-> IF j % 2 = 1 \/ N < 2 THEN [i \in 1..N |-> i % N]
                                              ELSE [i \in 1..N |-> IF i = 1 THEN 1 ELSE IF i = 2 THEN 0 ELSE i - 1]]
CastL(T) == [k |-> "cast", t |-> T]
DerefL == [k |-> "deref"]
InterpL(kind, N, ins) == [k |-> kind, n |-> N, ins |-> ins]

WrapperKinds == <<"clamp", "backup", "shuffle", "cast", "deref", "affine">>
MakeWrapper(kind, j, N, M, T) ==
  CASE kind = "clamp" -> ClampL(j, N) [] kind = "backup" -> BackupL(j, N, M) [] kind = "shuffle" -> ShuffleL(j, N)
    [] kind = "cast" -> CastL(Other(T)) [] kind = "deref" -> DerefL [] kind = "affine" -> AffineL(j, N)

NOf(i) == (i % 3) + 1                    \* rotating dimensionalities 1..3 (4 in the samples)
MOf(i) == ((i * 3 + 1) % 4) + 1          \* 2,1,4,3,... mostly different from N
TOf(i) == IF i % 2 = 0 THEN "float" ELSE "double"

\* ---- cover: a over b, completed canonically
IntTail(N, M, T) == <<LayoutL("strided", N), ArrayL(M, T, "strided", N)>>
RealTail(i, N, M, T) == <<InterpL(IF i % 2 = 0 THEN "linear" ELSE "nearest", N, IF i % 3 = 0 THEN "double" ELSE "float")>> \o IntTail(N, M, T)
PairStacks ==
  LET W == WrapperKinds IN
  \* real-level wrapper over real-level wrapper / interpolator
  {<<MakeWrapper(W[a], 1, NOf(a + b), MOf(a + 2 * b), TOf(b))>> \o <<MakeWrapper(W[b], 2, NOf(a + b), MOf(a + 2 * b), TOf(b))>> \o RealTail(a + b, NOf(a + b), MOf(a + 2 * b), TOf(b))
      : a \in 1..6, b \in 1..6}
  \cup {<<MakeWrapper(W[a], 1, NOf(a + i), MOf(a + i), TOf(a))>> \o RealTail(i, NOf(a + i), MOf(a + i), TOf(a)) : a \in 1..6, i \in 0..1}
  \* integer-level wrapper over integer-level wrapper / storage order / constant / identity
  \cup {<<MakeWrapper(W[a], 1, NOf(a * b), MOf(a + b), TOf(a))>> \o <<MakeWrapper(W[b], 2, NOf(a * b), MOf(a + b), TOf(a))>> \o IntTail(NOf(a * b), MOf(a + b), TOf(a))
      : a \in 1..5, b \in 1..5}
  \cup {<<MakeWrapper(W[a], 1, IF lay = "hilbert" THEN 2 ELSE NOf(a), MOf(a), TOf(a))>>
          \o <<LayoutL(lay, IF lay = "hilbert" THEN 2 ELSE NOf(a)), ArrayL(MOf(a), TOf(a), lay, IF lay = "hilbert" THEN 2 ELSE NOf(a))>>
      : a \in 1..5, lay \in {"strided", "morton", "hilbert"}}
  \cup {<<MakeWrapper(W[a], 1, NOf(a), MOf(a + 1), TOf(a))>> \o <<ConstL(NOf(a), MOf(a + 1), TOf(a), IF a % 2 = 0 THEN "float" ELSE "size")>> : a \in 1..6}
  \cup {<<MakeWrapper(W[a], 1, NOf(a), NOf(a), TOf(a))>> \o <<IdentL(NOf(a), TOf(a))>> : a \in 1..6}
  \* interpolator over integer-level wrapper / storage order / constant / identity
  \cup {<<InterpL(ik, NOf(b + 1), IF b % 2 = 0 THEN "float" ELSE "double")>> \o <<MakeWrapper(W[b], 2, NOf(b + 1), MOf(b), TOf(b))>> \o IntTail(NOf(b + 1), MOf(b), TOf(b))
      : ik \in {"linear", "nearest"}, b \in 1..5}
  \cup {<<InterpL(ik, IF lay = "hilbert" THEN 2 ELSE NOf(i), "float")>>
          \o <<LayoutL(lay, IF lay = "hilbert" THEN 2 ELSE NOf(i)), ArrayL(MOf(i + 1), TOf(i), lay, IF lay = "hilbert" THEN 2 ELSE NOf(i))>>
      : ik \in {"linear", "nearest"}, lay \in {"strided", "morton", "hilbert"}, i \in 0..2}
  \cup {<<InterpL(ik, NOf(i), "float")>> \o <<ConstL(NOf(i), MOf(i), "float", "size")>> : ik \in {"linear", "nearest"}, i \in 0..2}
  \cup {<<InterpL(ik, NOf(i), IF i = 1 THEN "double" ELSE "float")>> \o <<CastL("float"), IdentL(NOf(i), "int")>> : ik \in {"linear", "nearest"}, i \in 0..2}
  \cup {<<InterpL("nearest", NOf(i), "double")>> \o <<IdentL(NOf(i), "size")>> : i \in 0..2}
  \* primitives and storage orders on their own, N = 4 included
  \cup {<<LayoutL(lay, N), ArrayL(MOf(N), TOf(N), lay, N)>> : lay \in {"strided", "morton"}, N \in 1..4}
  \cup {<<LayoutL("hilbert", 2), ArrayL(3, "float", "hilbert", 2)>>, <<ConstL(3, 1, "float", "float")>>, <<ConstL(1, 3, "double", "float")>>, <<IdentL(3, "float")>>}

\* nests of shuffles with permutations that do not commute (N = 3, 4), directly and with another layer in between (always
\* included, also in the quick tier)
\* an affine layer over double-precision coordinates that translates by -2^22: the queries 2^22 + 5/4 and 2^22 + 1 need 25
\* significant bits - exact in double, not in float - so a coordinate map evaluated in the wrong precision shows
BigT == 4194304
BigAffineL(N) == [k |-> "affine", A |-> [i \in 1..N |-> [c \in 1..(N + 1) |-> IF c = i THEN 1 ELSE IF c = N + 1 THEN 0 - BigT ELSE 0]]]
IsBigAffine(st) == Head(st).k = "affine" /\ Head(st).A[1][Len(Head(st).A) + 1] = 0 - BigT
BigStacks == {<<BigAffineL(2), IdentL(2, "double")>>,
              <<BigAffineL(1), InterpL("linear", 1, "double")>> \o IntTail(1, 2, "double"),
              <<BigAffineL(3), InterpL("nearest", 3, "double")>> \o IntTail(3, 1, "float")}
NestStacks ==
  \* a stack whose view is exactly as large as field_view allows (256 bytes = 96 + 72 + 48 + 24 + 16)
  {<<AffineL(1, 3), BackupL(2, 3, 3), ClampL(3, 3)>> \o IntTail(3, 3, "double")}
  \cup {<<ShuffleL(1, N), ShuffleL(2, N)>> \o IntTail(N, 2, "float") : N \in 3..4}
  \cup {<<ShuffleL(2, N), ShuffleL(1, N)>> \o RealTail(N, N, 1, "float") : N \in 3..4}
  \cup {<<ShuffleL(2, 3), ShuffleL(1, 3), ShuffleL(2, 3)>> \o IntTail(3, 1, "double"), <<ShuffleL(1, 3), ClampL(1, 3), ShuffleL(2, 3)>> \o IntTail(3, 2, "float")}

\* "all configuration values of each layer" (C17): the configuration of a layer is whatever it was given, whether or not it
\* is consistent with its neighbours'.  Stacks whose array holds FEWER or MORE elements than the storage order above it
\* addresses are constructed, read back, rebuilt from the reported configuration and built through the positional helper - and
\* never looked up (config_only).
LooseArray(st, count) == [j \in 1..Len(st) |-> IF st[j].k = "array" THEN [st[j] EXCEPT !.count = count] ELSE st[j]]
NarrowArray(st, count, idx) == [j \in 1..Len(st) |-> IF st[j].k = "array" THEN [k |-> "array", m |-> st[j].m, t |-> st[j].t, count |-> count, idx |-> idx] ELSE st[j]]
LooseStacks ==
  {LooseArray(IntTail(2, 2, "float"), c) : c \in {7, 19, 23}}                                    \* extents 5 x 4 = 20 cells
  \cup {LooseArray(<<AffineL(1, 3)>> \o RealTail(1, 3, 3, "float"), c) : c \in {5, 81}}          \* 4 x 4 x 5 = 80 cells
  \cup {LooseArray(<<ClampL(1, 1), ClampL(2, 1)>> \o IntTail(1, 1, "double"), c) : c \in {1, 5, 9}}   \* 6 cells
  \cup {LooseArray(<<LayoutL("morton", 2), ArrayL(1, "float", "morton", 2)>>, c) : c \in {20, 63, 65}}   \* 5 x 4 padded to 64
  \* array storage addressed by an 8- or 16-bit index type holding exactly as many elements as the index type can address
  \cup {NarrowArray(IntTail(2, 1, "float"), 256, "uint8"), NarrowArray(IntTail(1, 2, "float"), 65536, "uint16"),
        NarrowArray(<<ClampL(1, 2)>> \o IntTail(2, 1, "double"), 200, "uint8")}

\* ---- seeded samples of depth up to 5
Mix(h) == ((h % 46337) * (h % 46337) + 12345) % 46337
Rnd(a, b) == Mix(Mix((a * 7919) + (b * 10473) + ((Seed % 1000) * 3137)) + (a * 131) + b)
SampleStack(i) ==
  LET N == (Rnd(i, 1) % 4) + 1  M == (Rnd(i, 2) % 4) + 1  T == TOf(Rnd(i, 3))
      lay == IF N = 2 /\ Rnd(i, 4) % 3 = 0 THEN "hilbert" ELSE IF Rnd(i, 4) % 2 = 0 THEN "morton" ELSE "strided"
      nint == Rnd(i, 5) % 2
      interp == Rnd(i, 6) % 3                 \* 0 none, 1 nearest, 2 linear
      nreal == IF interp = 0 THEN 0 ELSE Rnd(i, 7) % (4 - nint)
      intw == [j \in 1..nint |-> MakeWrapper(WrapperKinds[(Rnd(i, 10 + j) % 5) + 1], 10 + j, N, M, T)]
      realw == [j \in 1..nreal |-> MakeWrapper(WrapperKinds[(Rnd(i, 20 + j) % 6) + 1], 20 + j, N, M, T)]
      ip == IF interp = 0 THEN <<>> ELSE <<InterpL(IF interp = 1 THEN "nearest" ELSE "linear", N, TOf(Rnd(i, 8)))>>
  IN realw \o ip \o intw \o <<LayoutL(lay, N), ArrayL(M, T, lay, N)>>
SampleStacks == {SampleStack(i) : i \in 1..NSample}

\* chains for the positional parameter-pack helper (C17): depth 2..10, adjacent layers of the same configuration type
\* with different values (clamp boxes), and the 1-D coincidence strided<size1> / array (both nd_size<1>)
ChainStack(d, prim) == [j \in 1..(d - (IF prim = "identity" THEN 1 ELSE 2)) |-> [k |-> "clamp", lo |-> <<j % 3>>, hi |-> <<3 + j>>]]
                       \o (IF prim = "identity" THEN <<IdentL(1, "float")>> ELSE <<LayoutL("strided", 1), [k |-> "array", m |-> 2, t |-> "float", count |-> 6]>>)
ChainStacks == {ChainStack(d, "identity") : d \in 2..10} \cup {ChainStack(d, "array") : d \in 3..10}

\* ---- full enumeration to depth 3 (thorough tier): every base (primitive with its storage order) and every single
\* wrapper / interpolator over it, and every pair of layers over constant / identity, for all N, M in 1..4 and both widths
Bases3 == {<<LayoutL(lay, N), ArrayL(M, T, lay, N)>> : lay \in {"strided", "morton"}, N \in 1..4, M \in 1..4, T \in {"float", "double"}}
          \cup {<<LayoutL("hilbert", 2), ArrayL(M, T, "hilbert", 2)>> : M \in 1..4, T \in {"float", "double"}}
Prims3 == {<<ConstL(N, M, T, ins)>> : N \in 1..4, M \in 1..4, T \in {"float", "double"}, ins \in {"size", "float"}}
          \cup {<<IdentL(N, T)>> : N \in 1..4, T \in {"float", "int"}}
OverBase(b) == LET k == Kind(b) IN
   {<<MakeWrapper(WrapperKinds[w], 1, k.n, k.m, k.outs)>> \o b : w \in 1..5}
   \cup {<<InterpL(ik, k.n, ins)>> \o b : ik \in {"linear", "nearest"}, ins \in {"float", "double"}}
Over1(b) == LET k == Kind(b) IN
   {<<MakeWrapper(WrapperKinds[w], 1, k.n, k.m, IF k.outs \in Floating THEN k.outs ELSE "float")>> \o b : w \in 1..6}
   \cup {<<InterpL(ik, k.n, "float")>> \o b : ik \in {"linear", "nearest"}}
Depth3Stacks == IF ~FullDepth3 THEN {}
                ELSE Bases3 \cup UNION {OverBase(b) : b \in Bases3}
                     \cup Prims3 \cup UNION {Over1(b) : b \in Prims3}
                     \cup UNION {UNION {Over1(c) : c \in {x \in Over1(b) : ~IsIll(Kind(x))}} : b \in Prims3}

PairSeq == SetToSeq(PairStacks)
CoverStacks == {PairSeq[i] : i \in {j \in 1..Len(PairSeq) : j % CoverStride = 0}}
AllStacks == {st \in CoverStacks \cup SampleStacks \cup NestStacks \cup BigStacks : WellKinded(st) /\ Len(st) <= 5} \cup {st \in ChainStacks : WellKinded(st)}
             \cup {st \in Depth3Stacks : WellKinded(st) /\ Len(st) <= 3}

\* ---- coordinates: candidates on the grid; the in-domain ones are those on which Eval is defined
RealCands == {0, DS, S, S + 3 * DS, 2 * S}                 \* 0, 1/4, 1, 7/4, 2
IntCands == {0, S, 2 * S, 3 * S}
TopIsReal(st) == Kind(st).ins \in Floating
Cands(st) == LET N == Kind(st).n  base == IF TopIsReal(st) THEN RealCands ELSE IntCands IN
             IF IsBigAffine(st) THEN [1..N -> {BigT * S + 5 * DS, BigT * S + S}]
             ELSE IF N <= 2 THEN [1..N -> base]
             ELSE {[k \in 1..N |-> SetToSeq(base)[((j + 2 * k + (j \div 3) * k) % Cardinality(base)) + 1]] : j \in 0..23}
Queries(st) == {x \in Cands(st) : Eval(st, x) # Undef}

VARIABLE kase
Init == \E st \in AllStacks : kase = st
Next == UNCHANGED kase
Spec == Init /\ [][Next]_kase

\* every generated stack is well-kinded and can be evaluated somewhere
Evaluable == WellKinded(kase) /\ Queries(kase) # {} /\ Kind(kase).m = Len(Eval(kase, CHOOSE x \in Queries(kase) : TRUE))
\* the one-line definition of the outermost layer, whatever lies beneath (compositionality)
OuterLaw ==
  LET l == Head(kase)  rest == Tail(kase) IN
  \A x \in Queries(kase) :
    CASE l.k = "clamp" -> Eval(kase, x) = Eval(rest, [i \in 1..Len(x) |-> Max({l.lo[i] * S, Min({l.hi[i] * S, x[i]})})])
      [] l.k = "backup" -> IF \A i \in 1..Len(x) : l.lo[i] * S <= x[i] /\ x[i] <= l.hi[i] * S
                           THEN Eval(kase, x) = Eval(rest, x) ELSE Eval(kase, x) = [q \in 1..Len(l.dflt) |-> l.dflt[q] * S]
      [] l.k = "shuffle" -> \E y \in [1..Len(x) -> {x[i] : i \in 1..Len(x)}] :
                               /\ \A i \in 1..Len(x) : y[i] = x[l.perm[i] + 1]          \* output coordinate i is input coordinate perm[i]
                               /\ Eval(kase, x) = Eval(rest, y)
      [] l.k \in {"cast", "deref"} -> Eval(kase, x) = Eval(rest, x)
      [] l.k = "affine" -> Eval(kase, x) = Eval(rest, [i \in 1..Len(x) |-> x[i] + l.A[i][Len(x) + 1] * S])
      [] l.k = "constant" -> Eval(kase, x) = [q \in 1..l.m |-> 11 * q * S]
      [] l.k = "identity" -> Eval(kase, x) = x
      [] OTHER -> TRUE
\* lattice points under an interpolator return what lies beneath
LatticeLaw ==
  Head(kase).k \in {"linear", "nearest"} =>
     \A x \in Queries(kase) : (\A i \in 1..Len(x) : x[i] % S = 0) => Eval(kase, x) = Eval(Tail(kase), x)

\* ---- emission
Scalars == [size |-> "std::size_t", uint |-> "unsigned", int |-> "int", float |-> "float", double |-> "double"]
StackCase(st) ==
  LET qs == SetToSeq(Queries(st)) IN
  [kind |-> "stack", layers |-> st, depth |-> Len(st), n |-> Kind(st).n, ins |-> Kind(st).ins, m |-> Kind(st).m, outs |-> Kind(st).outs,
   ref |-> Kind(st).ref, configs |-> Configs(st), scale |-> S,
   queries |-> [j \in 1..Len(qs) |-> [x |-> qs[j], value |-> Eval(st, qs[j]), lookups |-> Lookups(st, qs[j])]]]

\* compositions that violate exactly one stated kind rule: must be rejected by the compiler
IllStacks == {
  [rule |-> "linear: covariant input must be floating point",
   layers |-> <<InterpL("linear", 2, "float"), LayoutL("strided", 2), ArrayL(2, "int", "strided", 2)>>],
  [rule |-> "linear: contravariant input must be floating point",
   layers |-> <<InterpL("linear", 2, "int"), LayoutL("strided", 2), ArrayL(2, "float", "strided", 2)>>],
  [rule |-> "nearest_neighbour: contravariant input must be floating point",
   layers |-> <<InterpL("nearest", 2, "size"), LayoutL("strided", 2), ArrayL(1, "float", "strided", 2)>>],
  [rule |-> "linear: input size must equal the backend's",
   layers |-> <<InterpL("linear", 3, "float"), LayoutL("strided", 2), ArrayL(1, "float", "strided", 2)>>],
  [rule |-> "nearest_neighbour: input size must equal the backend's",
   layers |-> <<InterpL("nearest", 1, "float"), LayoutL("morton", 2), ArrayL(1, "float", "morton", 2)>>],
  [rule |-> "hilbert: number of input dimensions must be exactly two",
   layers |-> <<LayoutL("hilbert", 3), ArrayL(1, "float", "strided", 3)>>],
  [rule |-> "hilbert: number of input dimensions must be exactly two",
   layers |-> <<LayoutL("hilbert", 1), ArrayL(1, "float", "strided", 1)>>],
  [rule |-> "field_view: storage type is too large (more than 256 bytes)",
   layers |-> <<[k |-> "affine", A |-> [i \in 1..4 |-> [c \in 1..5 |-> IF c = i THEN 1 ELSE 0]]],
                [k |-> "affine", A |-> [i \in 1..4 |-> [c \in 1..5 |-> IF c = i THEN 1 ELSE 0]]],
                IdentL(4, "double")>>] }
IllLaw == \A c \in IllStacks : IsIll(Kind(c.layers)) \/ ViewBytes(c.layers) > 256
BoundaryLaw == \E st \in NestStacks : ViewBytesUp(st) = 256 /\ ViewBytes(st) = 256 /\ WellKinded(st)
ASSUME IllLaw

EmitCases == TLCGet("stats").generated >= 0 /\
  ndJsonSerialize(IOEnv.VF_OUT, SetToSeq({StackCase(st) : st \in AllStacks})
                                \o SetToSeq({[kind |-> "stack", config_only |-> TRUE, layers |-> st, depth |-> Len(st), n |-> Kind(st).n, ins |-> Kind(st).ins,
                                              m |-> Kind(st).m, outs |-> Kind(st).outs, ref |-> Kind(st).ref, configs |-> Configs(st), scale |-> S,
                                              queries |-> <<>>] : st \in {x \in LooseStacks : ~IsIll(Kind(x))}})
                                \o SetToSeq({[kind |-> "ill", rule |-> c.rule, layers |-> c.layers] : c \in IllStacks}))
=============================================================================
