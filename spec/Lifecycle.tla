------------------------------ MODULE Lifecycle ------------------------------
(***************************************************************************)
(* Fields as independent values (C12), representation changes (C05) and the *)
(* programs replayed for C15.                                               *)
(*                                                                         *)
(* State: a pool of field SLOTS, a HEAP of storage blocks and, as a ghost,  *)
(* the plain N-dimensional array MODEL each live field must equal.          *)
(*   slot[s]  = [st   : "dead" | "live" | "moved" | "unspec",              *)
(*               ty   : field type (layout kind), ext : extents,            *)
(*               blk  : block id or 0 (null unique_ptr), size : m_size]     *)
(*   heap[b]  = [st : "unalloc" | "live" | "freed", cells : 0..n-1 -> Val]  *)
(* One action per public operation, with the sub-steps in the order the     *)
(* code performs them (primitive/array.hpp:40-107, field.hpp:33-72, the     *)
(* converting constructors of strided/morton/hilbert).  Block ids are never *)
(* reused, so a dangling pointer can never be mistaken for a fresh block.   *)
(*                                                                         *)
(* AssignImpl = "pinned" is what the pinned revision did (copy assignment   *)
(* installs the new zeroed block BEFORE copying from the source, so a = a   *)
(* copies from the fresh block); "fixed" is the repaired behaviour, which   *)
(* is what the properties demand and what conformance runs against.         *)
(***************************************************************************)
EXTENDS Layout, NdMapFn, TLC

CONSTANTS Slots, Types, ExtChoices, Vals, MaxOps, AssignImpl, WM,
          Ops,     \* the operations enabled in this configuration (subset of AllOps)
          ConstructSlots, \* slots in which Construct may be used (bounds who is addressed, not only how many)
          Unbounded,      \* TRUE: no bound on the history length; freed block ids are recycled so that the state space is finite
          Canon,          \* TRUE: symmetry breaking - a new field object is only ever created in the lowest-numbered dead slot
          LinK,           \* length of the per-object lineage ghost (0 = off), see Lin below
          ViewIds         \* identifiers of long-lived views (field_view objects kept across operations); {} = none

\* Types is a set of layout names; a field type is (layout, dimensionality of its extents)
NullBlk == 0
BlkIds == IF Unbounded THEN 1..(Cardinality(Slots) + 2) ELSE 1..(3 * MaxOps + 2)

VARIABLES slot, heap, model, nblk, err, stream, ops, view
vars == <<slot, heap, model, nblk, err, stream, ops, view>>

\* `lin' is a ghost carried by every field object: the last LinK storage sizes the object - or the objects it was copied or
\* moved from - has had.  No action reads it.  It travels the way an implementation's private members travel (copied by copy
\* construction, taken by the moves, retained by the target of a copy assignment), so with LinK > 0 TLC distinguishes, and
\* emits a witness behaviour for, states that differ only in HOW an object came to its present value: "was larger before",
\* "copy of an object that was larger before", ... - the histories on which stale sizes, reused buffers or capacities matter.
Dead == [st |-> "dead", ty |-> "none", ext |-> <<>>, blk |-> NullBlk, size |-> 0, lin |-> <<>>]
LastK(a) == IF Len(a) <= LinK THEN a ELSE SubSeq(a, Len(a) - LinK + 1, Len(a))
LinCat(ld, ls) == IF LinK = 0 THEN <<>> ELSE LastK(ld \o ls)       \* an assignment: what the target had, then what the source brings
Lin(l, n) == IF LinK = 0 THEN <<>> ELSE LET a == Append(l, n) IN IF Len(a) <= LinK THEN a ELSE SubSeq(a, Len(a) - LinK + 1, Len(a))
Live(s) == slot[s].st = "live"
Assignable(s) == slot[s].st \in {"live", "moved", "unspec"}
ZeroCells(n) == [i \in 0..(n - 1) |-> 0]
IdxOf(ty, e, c) == Idx(ty, e, c, WM)

\* A VIEW (field_view.hpp:30-33, array.hpp:200-217) is a self-contained value: a copy of every layer's configuration and
\* a raw pointer to the storage block.  It refers to the STORAGE, not to the field object it was made from, so it keeps
\* denoting the same cells when ownership of the block moves to another field object (the move operations transfer the
\* unique_ptr), and it is dead as soon as the block may have been released: after any operation that targets the owning
\* field as the destination of an assignment, or destroys it.  (Views are passed by value to device kernels in
\* examples/cuda: they cannot hold references into the host-side field object.)
\* `from' is a ghost: the slot the view was made from.  No action reads it - a view does not depend on the field object it was
\* copied out of - but keeping it in the state makes TLC distinguish, and emit a witness behaviour for, "the origin has since
\* been moved from / destroyed / reconstructed with other extents", which is exactly where an implementation that let views
\* refer back to the field object would go wrong.
NoView == [st |-> "none", blk |-> NullBlk, ty |-> "none", ext |-> <<>>, from |-> 0]
KeepViews(B) == view' = [v \in ViewIds |-> IF view[v].blk \in B THEN NoView ELSE view[v]]
OwnerOf(b) == CHOOSE s \in Slots : slot[s].blk = b

\* slots are interchangeable (no action depends on a slot's number), so every behaviour has an equivalent one in which new
\* objects always go to the lowest-numbered dead slot; generation configurations may restrict themselves to those
FreshOK(d) == Canon => \A t \in Slots : t < d => slot[t].st # "dead"

Init == /\ view = [v \in ViewIds |-> NoView]
        /\ slot = [s \in Slots |-> Dead]
        /\ heap = [b \in BlkIds |-> [st |-> "unalloc", cells |-> <<>>]]
        /\ model = [s \in Slots |-> <<>>]
        /\ nblk = 0 /\ err = "" /\ stream = <<>> /\ ops = 0

\* ------------------------------------------------------------ heap primitives
Alloc(h, b, n) == [h EXCEPT ![b] = [st |-> "live", cells |-> ZeroCells(n)]]       \* make_unique<T[]>(n): value-initialised
FreeOf(h, b) == IF b = NullBlk THEN h ELSE [h EXCEPT ![b].st = "freed"]           \* ~unique_ptr
FreeErr(h, b) == IF b # NullBlk /\ h[b].st # "live" THEN "double-free" ELSE ""
Tick == IF Unbounded THEN ops' = ops ELSE (ops' = ops + 1 /\ ops < MaxOps)
\* the id of a freshly allocated block: never reused in bounded mode (a dangling pointer can then never be mistaken for a fresh
\* block); in unbounded mode the smallest id that is not live is recycled - sound for the repaired model, in which no slot
\* ever keeps a pointer to a freed block (NoUseAfterFree is checked in every state)
NewBlk == IF Unbounded THEN CHOOSE b \in BlkIds : heap[b].st # "live" /\ \A c \in BlkIds : c < b => heap[c].st = "live" ELSE nblk + 1
Bump(b) == nblk' = IF Unbounded THEN nblk ELSE b

\* ------------------------------------------------------------ operations
\* field(parameter_pack): configuration + freshly allocated, zeroed storage of the size the layer needs
Construct(s, ty, e) ==
  /\ slot[s].st = "dead" /\ FreshOK(s) /\ Applicable(ty, e) /\ Tick
  /\ LET b == NewBlk  n == StorageSize(ty, e) IN
       /\ Bump(b)
       /\ heap' = Alloc(heap, b, n)
       /\ slot' = [slot EXCEPT ![s] = [st |-> "live", ty |-> ty, ext |-> e, blk |-> b, size |-> n, lin |-> Lin(<<>>, n)]]
       /\ model' = [model EXCEPT ![s] = [c \in Box(e) |-> 0]]
  /\ UNCHANGED <<err, stream>>
  /\ KeepViews({})

\* write through a freshly made view at an in-range coordinate
Write(s, c, v) ==
  /\ Live(s) /\ c \in Box(slot[s].ext) /\ Tick
  /\ LET i == IdxOf(slot[s].ty, slot[s].ext, c)  b == slot[s].blk IN
       /\ IF b = NullBlk \/ heap[b].st # "live" THEN err' = "use-after-free" /\ heap' = heap
          ELSE IF i \notin DOMAIN heap[b].cells THEN err' = "out-of-bounds" /\ heap' = heap
          ELSE err' = err /\ heap' = [heap EXCEPT ![b].cells[i] = v]
  /\ model' = [model EXCEPT ![s][c] = v]
  /\ UNCHANGED <<slot, nblk, stream>>
  /\ KeepViews({})

\* array::owning_data_t(const owning_data_t &): m_size(o.m_size), m_ptr(make_unique(m_size)), memcpy
CopyCtor(d, s) ==
  /\ slot[d].st = "dead" /\ FreshOK(d) /\ Live(s) /\ d # s /\ Tick
  /\ LET b == NewBlk IN
       /\ Bump(b)
       /\ heap' = [Alloc(heap, b, slot[s].size) EXCEPT ![b].cells = heap[slot[s].blk].cells]
       /\ slot' = [slot EXCEPT ![d] = [slot[s] EXCEPT !.blk = b]]
       /\ model' = [model EXCEPT ![d] = model[s]]
  /\ UNCHANGED <<err, stream>>
  /\ KeepViews({})

\* defaulted move: the unique_ptr is taken, the source keeps its (stale) size and a null pointer
MoveCtor(d, s) ==
  /\ slot[d].st = "dead" /\ FreshOK(d) /\ Live(s) /\ d # s /\ Tick
  /\ slot' = [slot EXCEPT ![d] = slot[s], ![s] = [slot[s] EXCEPT !.st = "moved", !.blk = NullBlk]]
  /\ model' = [model EXCEPT ![d] = model[s], ![s] = <<>>]
  /\ UNCHANGED <<heap, nblk, err, stream>>
  /\ KeepViews({})

\* array::owning_data_t::operator=(const &), d # s.  Sub-steps as coded:
\*   m_size = o.m_size; m_ptr = make_unique(m_size) [allocates, then releases the old block]; memcpy from o
CopyAssign(d, s) ==
  /\ Assignable(d) /\ Live(s) /\ d # s /\ slot[d].ty = slot[s].ty /\ Len(slot[d].ext) = Len(slot[s].ext) /\ Tick
  /\ LET b == NewBlk
         h1 == Alloc(heap, b, slot[s].size)
         h2 == FreeOf(h1, slot[d].blk)
     IN /\ Bump(b)
        /\ err' = IF FreeErr(h1, slot[d].blk) # "" THEN FreeErr(h1, slot[d].blk) ELSE err
        /\ heap' = [h2 EXCEPT ![b].cells = h2[slot[s].blk].cells]
        /\ slot' = [slot EXCEPT ![d] = [slot[s] EXCEPT !.blk = b, !.lin = LinCat(slot[d].lin, slot[s].lin)]]
        /\ model' = [model EXCEPT ![d] = model[s]]
  /\ UNCHANGED stream
  /\ KeepViews({slot[d].blk})

\* a = a
SelfCopyAssign(s) ==
  /\ Live(s) /\ Tick
  /\ IF AssignImpl = "fixed"
     THEN UNCHANGED <<slot, heap, model, nblk, err>>                    \* early return
     ELSE LET b == NewBlk                                              \* pinned: new zeroed block installed first,
              h1 == Alloc(heap, b, slot[s].size)                         \* then "copied" from itself
              h2 == FreeOf(h1, slot[s].blk)
          IN /\ Bump(b) /\ heap' = h2 /\ err' = err
             /\ slot' = [slot EXCEPT ![s].blk = b]
             /\ model' = model                                           \* what the user is entitled to expect
  /\ UNCHANGED stream
  /\ KeepViews({slot[s].blk})

\* defaulted move assignment: the target's old block is released, the source is left moved-from
MoveAssign(d, s) ==
  /\ Assignable(d) /\ Live(s) /\ d # s /\ slot[d].ty = slot[s].ty /\ Len(slot[d].ext) = Len(slot[s].ext) /\ Tick
  /\ err' = IF FreeErr(heap, slot[d].blk) # "" THEN FreeErr(heap, slot[d].blk) ELSE err
  /\ heap' = FreeOf(heap, slot[d].blk)
  /\ slot' = [slot EXCEPT ![d] = [slot[s] EXCEPT !.lin = LinCat(slot[d].lin, slot[s].lin)], ![s] = [slot[s] EXCEPT !.st = "moved", !.blk = NullBlk]]
  /\ model' = [model EXCEPT ![d] = model[s], ![s] = <<>>]
  /\ UNCHANGED <<nblk, stream>>
  /\ KeepViews({slot[d].blk})

\* a = std::move(a): the result is unspecified but the object must stay destructible and assignable
SelfMoveAssign(s) ==
  /\ Live(s) /\ Tick
  /\ slot' = [slot EXCEPT ![s].st = "unspec"]
  /\ model' = [model EXCEPT ![s] = <<>>]
  /\ UNCHANGED <<heap, nblk, err, stream>>
  /\ KeepViews({slot[s].blk})

\* converting constructor field<T2>(const field<T1> &): same extents, re-layout copy driven by nd_map
Convert(d, s, ty2) ==
  /\ slot[d].st = "dead" /\ Live(s) /\ d # s /\ ty2 # slot[s].ty /\ Applicable(ty2, slot[s].ext) /\ Tick
  /\ LET e == slot[s].ext
         b == NewBlk
         n == StorageSize(ty2, e)
         src == heap[slot[s].blk].cells
         order == Visits(e)                                   \* the order nd_map invokes the copy lambda
         Step(cells, c) == [cells EXCEPT ![IdxOf(ty2, e, c)] = src[IdxOf(slot[s].ty, e, c)]]
     IN /\ Bump(b)
        /\ heap' = [Alloc(heap, b, n) EXCEPT ![b].cells = FoldLeft(Step, ZeroCells(n), order)]
        /\ slot' = [slot EXCEPT ![d] = [st |-> "live", ty |-> ty2, ext |-> e, blk |-> b, size |-> n, lin |-> Lin(<<>>, n)]]
        /\ model' = [model EXCEPT ![d] = model[s]]
  /\ UNCHANGED <<err, stream>>
  /\ KeepViews({})

\* field<T2>(field<T1> &&): the converting constructors take their argument by const reference, so a moving conversion
\* copies; what is left in the source is unspecified (it must stay destructible and assignable)
ConvertMove(d, s, ty2) ==
  /\ slot[d].st = "dead" /\ Live(s) /\ d # s /\ ty2 # slot[s].ty /\ Applicable(ty2, slot[s].ext) /\ Tick
  /\ LET e == slot[s].ext
         b == NewBlk
         n == StorageSize(ty2, e)
         src == heap[slot[s].blk].cells
         Step(cells, c) == [cells EXCEPT ![IdxOf(ty2, e, c)] = src[IdxOf(slot[s].ty, e, c)]]
     IN /\ Bump(b)
        /\ heap' = [Alloc(heap, b, n) EXCEPT ![b].cells = FoldLeft(Step, ZeroCells(n), Visits(e))]
        /\ slot' = [slot EXCEPT ![d] = [st |-> "live", ty |-> ty2, ext |-> e, blk |-> b, size |-> n, lin |-> Lin(<<>>, n)], ![s].st = "unspec"]
        /\ model' = [model EXCEPT ![d] = model[s], ![s] = <<>>]
  /\ UNCHANGED <<err, stream>>
  /\ KeepViews({slot[s].blk})

\* field<T>(): a default-constructed field has no specified contents; it can be assigned to and destroyed
DefaultConstruct(s, ty, n) ==
  /\ slot[s].st = "dead" /\ (ty # "hilbert" \/ n = 2) /\ Tick
  /\ slot' = [slot EXCEPT ![s] = [st |-> "unspec", ty |-> ty, ext |-> [k \in 1..n |-> 0], blk |-> NullBlk, size |-> 0, lin |-> <<>>]]
  /\ UNCHANGED <<heap, model, nblk, err, stream>>
  /\ KeepViews({})

\* dump: the configuration and every cell of the storage block, in storage order
Dump(s) ==
  /\ Live(s) /\ Tick
  /\ stream' = [ty |-> slot[s].ty, ext |-> slot[s].ext, size |-> slot[s].size, cells |-> heap[slot[s].blk].cells]
  /\ UNCHANGED <<slot, heap, model, nblk, err>>
  /\ KeepViews({})

\* field(std::istream &) of the dumped type
Load(d) ==
  /\ slot[d].st = "dead" /\ stream # <<>> /\ Tick
  /\ LET b == NewBlk IN
       /\ Bump(b)
       /\ heap' = [Alloc(heap, b, stream.size) EXCEPT ![b].cells = stream.cells]
       /\ slot' = [slot EXCEPT ![d] = [st |-> "live", ty |-> stream.ty, ext |-> stream.ext, blk |-> b, size |-> stream.size, lin |-> Lin(<<>>, stream.size)]]
       /\ model' = [model EXCEPT ![d] = [c \in Box(stream.ext) |-> stream.cells[IdxOf(stream.ty, stream.ext, c)]]]
  /\ UNCHANGED <<err, stream>>
  /\ KeepViews({})

Destroy(s) ==
  /\ slot[s].st # "dead" /\ Tick
  /\ err' = IF FreeErr(heap, slot[s].blk) # "" THEN FreeErr(heap, slot[s].blk) ELSE err
  /\ heap' = FreeOf(heap, slot[s].blk)
  /\ slot' = [slot EXCEPT ![s] = Dead]
  /\ model' = [model EXCEPT ![s] = <<>>]
  /\ UNCHANGED <<nblk, stream>>
  /\ KeepViews({slot[s].blk})

\* field<B>(make_parameter_pack(storage)): a field built from an EXISTING storage object of its own backend type, the way
\* examples/core/generate_test_field.cpp and slice3dto2d.cpp build fields from another field's backend().  The pack holds
\* the storage by const reference, by reference or by value depending on how it was named; the layers' parameter-pack
\* constructors (strided.hpp:160-176 and the like) must COPY in the first two cases - the named object stays usable and
\* independent - and may take the storage only when it was passed as an rvalue.  Same abstract effect as copy / move
\* construction, different code path.  (hilbert and array only offer the rvalue form.)
\* The rvalue form moves the named object INTO the pack; what the layer's constructor then does with the pack's member (copy
\* it - strided.hpp:171-176 passes `args.x', an lvalue - or take it) is the layer's business.  Abstractly: the new field holds
\* the contents, the named object is moved-from, exactly one storage block remains, and NOTHING is promised about which block
\* that is - so long-lived views of the old storage are dead afterwards (modelled as copy to a fresh block + release).
Adopt(d, s, how) ==
  /\ how \in {"const", "lvalue", "rvalue"}
  /\ (how # "rvalue") => slot[s].ty \in {"strided", "morton", "morton_portable"}
  /\ IF how # "rvalue" THEN CopyCtor(d, s)
     ELSE /\ slot[d].st = "dead" /\ FreshOK(d) /\ Live(s) /\ d # s /\ Tick
          /\ LET b == NewBlk IN
               /\ Bump(b)
               /\ heap' = FreeOf([Alloc(heap, b, slot[s].size) EXCEPT ![b].cells = heap[slot[s].blk].cells], slot[s].blk)
               /\ slot' = [slot EXCEPT ![d] = [slot[s] EXCEPT !.blk = b], ![s] = [slot[s] EXCEPT !.st = "moved", !.blk = NullBlk]]
               /\ model' = [model EXCEPT ![d] = model[s], ![s] = <<>>]
          /\ KeepViews({slot[s].blk})
          /\ UNCHANGED <<err, stream>>

\* field_view<B> v(f): copies the configuration and the storage pointer out of the field
MakeView(v, s) ==
  /\ Live(s) /\ view[v].st = "none" /\ Tick
  /\ view' = [view EXCEPT ![v] = [st |-> "valid", blk |-> slot[s].blk, ty |-> slot[s].ty, ext |-> slot[s].ext, from |-> s]]
  /\ UNCHANGED <<slot, heap, model, nblk, err, stream>>

\* the view object itself is destroyed (nothing else changes)
DropView(v) ==
  /\ view[v].st = "valid" /\ Tick
  /\ view' = [view EXCEPT ![v] = NoView]
  /\ UNCHANGED <<slot, heap, model, nblk, err, stream>>

\* a write through a long-lived view lands in the block the view points to - whoever owns that block now sees it
WriteView(v, c, val) ==
  /\ view[v].st = "valid" /\ c \in Box(view[v].ext) /\ Tick
  /\ LET b == view[v].blk  i == IdxOf(view[v].ty, view[v].ext, c) IN
       /\ IF heap[b].st # "live" THEN err' = "use-after-free" /\ heap' = heap /\ model' = model
          ELSE IF i \notin DOMAIN heap[b].cells THEN err' = "out-of-bounds" /\ heap' = heap /\ model' = model
          ELSE /\ err' = err /\ heap' = [heap EXCEPT ![b].cells[i] = val]
               /\ model' = [model EXCEPT ![OwnerOf(b)][c] = val]
  /\ UNCHANGED <<slot, nblk, stream, view>>

AllOps == {"Construct", "Write", "CopyCtor", "MoveCtor", "CopyAssign", "MoveAssign", "Convert", "ConvertMove", "DefaultConstruct", "Dump", "Load", "Destroy", "Adopt"}
BasicOps == AllOps \ {"ConvertMove", "DefaultConstruct", "Adopt"}
LineageOps == {"Construct", "CopyCtor", "MoveCtor", "CopyAssign", "MoveAssign", "Destroy"}
ViewOps == {"Construct", "Write", "CopyCtor", "MoveCtor", "CopyAssign", "MoveAssign", "Destroy"}
CoreOps == {"Construct", "Write", "CopyCtor", "MoveCtor", "CopyAssign", "MoveAssign", "Convert", "Destroy"}
ConvOps == {"Construct", "Write", "Convert", "ConvertMove"}
On(op) == op \in Ops

Next ==
  \/ (On("Construct") /\ \E s \in ConstructSlots, ty \in Types : \E e \in ExtChoices : Construct(s, ty, e))
  \/ (On("Write") /\ \E s \in Slots : Live(s) /\ \E c \in Box(slot[s].ext), v \in Vals \ {0} : Write(s, c, v))
  \/ (On("CopyCtor") /\ \E d \in Slots, s \in Slots : CopyCtor(d, s))
  \/ (On("MoveCtor") /\ \E d \in Slots, s \in Slots : MoveCtor(d, s))
  \/ (On("CopyAssign") /\ \E d \in Slots, s \in Slots : CopyAssign(d, s))
  \/ (On("MoveAssign") /\ \E d \in Slots, s \in Slots : MoveAssign(d, s))
  \/ (On("CopyAssign") /\ \E s \in Slots : SelfCopyAssign(s))
  \/ (On("MoveAssign") /\ \E s \in Slots : SelfMoveAssign(s))
  \/ (On("Dump") /\ \E s \in Slots : Dump(s))
  \/ (On("Load") /\ \E s \in Slots : Load(s))
  \/ (On("Destroy") /\ \E s \in Slots : Destroy(s))
  \/ (On("Convert") /\ \E d \in Slots, s \in Slots, ty \in Types : Convert(d, s, ty))
  \/ (On("ConvertMove") /\ \E d \in Slots, s \in Slots, ty \in Types : ConvertMove(d, s, ty))
  \/ (On("DefaultConstruct") /\ \E s \in ConstructSlots, ty \in Types : \E e \in ExtChoices : DefaultConstruct(s, ty, Len(e)))
  \/ (On("Adopt") /\ \E d \in Slots, s \in Slots, how \in {"const", "lvalue", "rvalue"} : Adopt(d, s, how))
  \/ (\E v \in ViewIds, s \in Slots : MakeView(v, s))
  \/ (\E v \in ViewIds : DropView(v))
  \/ (\E v \in ViewIds : view[v].st = "valid" /\ \E c \in Box(view[v].ext), val \in Vals \ {0} : WriteView(v, c, val))

Spec == Init /\ [][Next]_vars

\* ------------------------------------------------------------ properties (C12)
\* every live field holds exactly what the plain array model holds
Refines == \A s \in Slots : Live(s) =>
             /\ slot[s].blk # NullBlk /\ heap[slot[s].blk].st = "live"
             /\ \A c \in Box(slot[s].ext) :
                  /\ IdxOf(slot[s].ty, slot[s].ext, c) \in DOMAIN heap[slot[s].blk].cells
                  /\ heap[slot[s].blk].cells[IdxOf(slot[s].ty, slot[s].ext, c)] = model[s][c]
\* every view that the rules above keep alive points to live storage that exactly one live field owns, with the view's own
\* copy of the configuration equal to the owner's: reading through the view is reading the owner (ViewsSeeOwner is what the
\* replay on the real library compares after every step)
ViewsValid == \A v \in ViewIds : view[v].st = "valid" =>
                /\ heap[view[v].blk].st = "live"
                /\ \E s \in Slots : Live(s) /\ slot[s].blk = view[v].blk /\ slot[s].ty = view[v].ty /\ slot[s].ext = view[v].ext
ViewCellsIn(h, vr) == [c \in Box(vr.ext) |-> h[vr.blk].cells[IdxOf(vr.ty, vr.ext, c)]]
ViewCells(v) == ViewCellsIn(heap, view[v])
ViewsSeeOwner == \A v \in ViewIds : view[v].st = "valid" => ViewCells(v) = model[OwnerOf(view[v].blk)]
NoAlias == \A a, b \in Slots : (a # b /\ slot[a].blk # NullBlk /\ slot[b].blk # NullBlk) => slot[a].blk # slot[b].blk
NoUseAfterFree == err # "use-after-free" /\ err # "out-of-bounds" /\
                  \A s \in Slots : slot[s].blk # NullBlk => heap[slot[s].blk].st = "live"
NoDoubleFree == err # "double-free"
NoLeak == \A b \in BlkIds : heap[b].st = "live" => \E s \in Slots : slot[s].blk = b
OwnedBlocks == Cardinality({b \in BlkIds : heap[b].st = "live"})

\* C05: a conversion reports the same configuration and values; the source is untouched by copying operations
ConfigKept == \A s \in Slots : Live(s) => slot[s].size = StorageSize(slot[s].ty, slot[s].ext)
SourceUnchanged == [][\A s \in Slots : (Live(s) /\ slot'[s].st = "live" /\ slot'[s].blk = slot[s].blk /\ model'[s] = model[s])
                         => heap'[slot[s].blk].cells = heap[slot[s].blk].cells]_vars
\* converting there and back reproduces the original storage exactly (checked as a state predicate on pairs of
\* live fields with equal type, extents and model: they must agree on every cell a coordinate maps to)
RoundTrip == \A a, b \in Slots : (Live(a) /\ Live(b) /\ model[a] = model[b] /\ slot[a].ext = slot[b].ext) =>
               \A c \in Box(slot[a].ext) :
                  heap[slot[a].blk].cells[IdxOf(slot[a].ty, slot[a].ext, c)] = heap[slot[b].blk].cells[IdxOf(slot[b].ty, slot[b].ext, c)]

TypeOK == /\ nblk \in 0..(3 * MaxOps + 2) /\ ops \in 0..MaxOps
          /\ \A s \in Slots : slot[s].st \in {"dead", "live", "moved", "unspec"}

\* ------------------------------------------------------------ model-checking constants
NoViews == {}
Views1 == {1}
Views2 == {1, 2}
Only1 == {1}
Slots2 == {1, 2}
Slots3 == {1, 2, 3}
TypesA == {"strided", "morton"}
TypesB == {"strided", "morton", "hilbert", "morton_portable"}
ExtOne == {<<2, 1>>}
Ext1 == {<<2>>, <<3>>}
TypesS == {"strided"}
Ext2 == {<<2, 1>>, <<1, 3>>}
Ext12 == {<<2>>, <<2, 2>>}
Ext2b == {<<2, 2>>, <<3, 2>>, <<1, 3>>}
Ext12x == {<<2>>, <<2, 1>>}
ExtMix == {<<1>>, <<3>>, <<2, 2>>, <<3, 2>>, <<1, 3>>, <<2, 5>>, <<2, 3, 2>>}
ExtConv == {<<1>>, <<2>>, <<3>>, <<5>>, <<1, 1>>, <<2, 2>>, <<3, 2>>, <<2, 3>>, <<1, 4>>, <<3, 3>>, <<2, 2, 2>>, <<3, 1, 2>>, <<2, 1, 2, 3>>}
ExtConvQ == {<<3, 2>>, <<2, 1, 2>>}
=============================================================================
