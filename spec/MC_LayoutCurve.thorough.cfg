SPECIFICATION Spec
CONSTANTS
  MortonBitsPerDim <- TB
  HilbertKs <- HKt
  RowExtB <- RowT
  WM = 30
INVARIANTS MortonLaw RowLaw HilbertLaw
POSTCONDITION EmitCases
CHECK_DEADLOCK FALSE
