SPECIFICATION GSpec
CONSTANTS
  Slots <- Slots3
  Types <- TypesB
  ExtChoices <- ExtConv
  Vals = {0, 1}
  MaxOps = 4
  AssignImpl = "fixed"
  WM = 12
  ConstructSlots <- Only1
  Unbounded = FALSE
  Canon = FALSE
  LinK = 0
  ViewIds <- NoViews
  Ops <- ConvOps
  EmitAll = TRUE
VIEW View
ACTION_CONSTRAINT EmitHist
INVARIANTS TypeOK Refines NoAlias NoUseAfterFree NoDoubleFree NoLeak ConfigKept RoundTrip
CHECK_DEADLOCK FALSE
