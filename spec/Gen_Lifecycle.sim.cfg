SPECIFICATION GSpec
CONSTANTS
  Slots <- Slots3
  Types <- TypesB
  ExtChoices <- ExtMix
  Vals = {0, 1, 2, 3}
  MaxOps = 30
  AssignImpl = "fixed"
  WM = 8
  ConstructSlots <- Slots3
  Unbounded = FALSE
  Canon = FALSE
  LinK = 0
  ViewIds <- Views2
  Ops <- AllOps
  EmitAll = FALSE
VIEW View
ACTION_CONSTRAINT EmitHist
INVARIANTS TypeOK Refines NoAlias NoUseAfterFree NoDoubleFree NoLeak ConfigKept RoundTrip ViewsValid ViewsSeeOwner
CHECK_DEADLOCK FALSE
