SPECIFICATION GSpec
CONSTANTS
  Slots <- Slots3
  Types <- TypesB
  ExtChoices <- ExtMix
  Vals = {0, 1, 2, 3}
  MaxOps = 30
  AssignImpl = "fixed"
  WM = 8
  ConstructSlots <- Slots3
  Unbounded = FALSE
  Ops <- AllOps
  EmitAll = FALSE
VIEW View
ACTION_CONSTRAINT EmitHist
INVARIANTS TypeOK Refines NoAlias NoUseAfterFree NoDoubleFree NoLeak ConfigKept RoundTrip
CHECK_DEADLOCK FALSE
