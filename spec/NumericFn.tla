----------------------------- MODULE NumericFn -----------------------------
(* Functional forms of the numeric.hpp loops as coded, on unbounded          *)
(* integers (callers stay inside the domain where no wrap-around occurs;    *)
(* Numeric.tla proves these equal to the wrapping state machines there).    *)
EXTENDS Naturals

RECURSIVE Dbl(_, _)
Dbl(j, i) == IF j < i THEN Dbl(2 * j, i) ELSE j
RoundPow2(i) == Dbl(1, i)

\* (the squaring after the last multiplication is unused by the code's result and is skipped here so that
\*  TLC's 32-bit integers do not overflow on it)
RECURSIVE SqMul(_, _, _)
SqMul(r, i, p) == IF p = 0 THEN r
                  ELSE SqMul(IF p % 2 = 1 THEN r * i ELSE r, IF p \div 2 = 0 THEN i ELSE i * i, p \div 2)
IPow(i, p) == SqMul(1, i, p)
=============================================================================
