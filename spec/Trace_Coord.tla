----------------------------- MODULE Trace_Coord -----------------------------
(* Trace validation of nearest-neighbour lookups recorded from the real      *)
(* layer on random coordinates (float and double, floor(x) up to 2^30): the  *)
(* lattice point chosen on every axis must be one NNAllowed admits.          *)
EXTENDS Coord, Json, IOUtils

Log == ndJsonDeserialize(IOEnv.VF_TRACE)
VARIABLES l
tvars == <<l>>
TInit == l = 1
IsEvent(e) == l <= Len(Log) /\ Log[l].e = e /\ l' = l + 1

TNN == /\ IsEvent("nn")
       /\ Log[l].prec \in {"float", "double"}
       /\ Len(Log[l].got) = Len(Log[l].k)
       /\ \A i \in 1..Len(Log[l].k) : Log[l].got[i] \in NNAllowed(Log[l].k[i], Log[l].rel[i])

\* {e:"box", rel:[per axis "below"|"lo"|"in"|"hi"|"above"|"lohi"], eqlo, eqhi, eqx (clamp result vs lo / hi / x per axis),
\*  is_default, queries, queried_at_x (backup over the probe)}: the harness abstracted every axis to its ORDER relation with
\* the box by exact comparisons; a canonical rank triple with that relation is pushed through Coord!ClampC / InBox
CanonHi(deg) == IF deg = 1 THEN 0 ELSE 2
CanonX(rel, deg) == CASE rel = "below" -> -1 [] rel = "lo" -> 0 [] rel = "in" -> 1 [] rel = "hi" -> 2
                      [] rel = "above" -> CanonHi(deg) + 1 [] rel = "lohi" -> 0
B2I(b) == IF b THEN 1 ELSE 0
Canon(ev) == LET n == Len(ev.rel) IN
   [x |-> [i \in 1..n |-> CanonX(ev.rel[i], ev.deg[i])], lo |-> [i \in 1..n |-> 0], hi |-> [i \in 1..n |-> CanonHi(ev.deg[i])]]
TClampBox == /\ IsEvent("clampbox")
             /\ LET ev == Log[l]  n == Len(ev.rel)  k == Canon(ev)  y == Clamp(k.x, k.lo, k.hi) IN
                  /\ \A i \in 1..n : ev.rel[i] \in {"below", "lo", "in", "hi", "above", "lohi"}
                  /\ \A i \in 1..n : ev.eqlo[i] = B2I(y[i] = k.lo[i])
                  /\ \A i \in 1..n : ev.eqhi[i] = B2I(y[i] = k.hi[i])
                  /\ \A i \in 1..n : ev.eqx[i] = B2I(y[i] = k.x[i])
TBackupBox == /\ IsEvent("backupbox")
              /\ LET ev == Log[l]  k == Canon(ev) IN
                   /\ ev.is_default = ~InBox(k.x, k.lo, k.hi)
                   /\ ev.queries = B2I(InBox(k.x, k.lo, k.hi))
                   /\ ev.queried_at_x = TRUE

TNext == TNN \/ TClampBox \/ TBackupBox
TSpec == TInit /\ [][TNext]_tvars
Accepted == IF TLCGet("stats").diameter - 1 = Len(Log)
            THEN TRUE
            ELSE /\ PrintT(<<"TRACE-REJECTED matched-prefix", TLCGet("stats").diameter - 1, "of", Len(Log)>>)
                 /\ FALSE
=============================================================================
