----------------------------- MODULE Trace_Coord -----------------------------
(* Trace validation of nearest-neighbour lookups recorded from the real      *)
(* layer on random coordinates (float and double, floor(x) up to 2^30): the  *)
(* lattice point chosen on every axis must be one NNAllowed admits.          *)
EXTENDS Coord, Json, IOUtils

Log == ndJsonDeserialize(IOEnv.VF_TRACE)
VARIABLES l
tvars == <<l>>
TInit == l = 1
IsEvent(e) == l <= Len(Log) /\ Log[l].e = e /\ l' = l + 1

TNN == /\ IsEvent("nn")
       /\ Log[l].prec \in {"float", "double"}
       /\ Len(Log[l].got) = Len(Log[l].k)
       /\ \A i \in 1..Len(Log[l].k) : Log[l].got[i] \in NNAllowed(Log[l].k[i], Log[l].rel[i])

TNext == TNN
TSpec == TInit /\ [][TNext]_tvars
Accepted == IF TLCGet("stats").diameter - 1 = Len(Log)
            THEN TRUE
            ELSE /\ PrintT(<<"TRACE-REJECTED matched-prefix", TLCGet("stats").diameter - 1, "of", Len(Log)>>)
                 /\ FALSE
=============================================================================
