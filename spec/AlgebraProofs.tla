---------------------------- MODULE AlgebraProofs ----------------------------
(* Machine-checked (TLAPS) unbounded versions, in closed form for N = 1 and N = 2, of the composition law of C09              *)
(* (algebra/affine.hpp:43-74): the product of two affine transforms, formed as the library forms it (rows of the embedded     *)
(* (N+1)x(N+1) matrix product: linear part  c_ij = sum_k a_ik * b_kj,  translation  t_i = sum_k a_ik * tb_k + ta_i), applied  *)
(* to a vector equals applying the right factor and then the left factor - for ALL integer entries and vectors, not only the  *)
(* small ones TLC enumerates (AlgebraMC: entries -3..3).  One ROW of the N = 2 law is proved generically; both rows of the    *)
(* result are instances of it.                                                                                                *)
EXTENDS Integers, TLAPS

LEMMA MulInt == \A a, b \in Int : a * b \in Int
  OBVIOUS
LEMMA Pair == \A u, v, w, a, b \in Int : u * (v * a + w * b) = u * v * a + u * w * b
  OBVIOUS
LEMMA Dist3 == \A u, p, q, r \in Int : u * (p + q + r) = u * p + u * q + u * r
  OBVIOUS
LEMMA Assoc3 == \A u, v, a \in Int : u * (v * a) = u * v * a
  OBVIOUS
LEMMA Fact2 == \A p, q, x \in Int : p * x + q * x = (p + q) * x
  OBVIOUS

\* N = 1:  A = (a | ta),  B = (b | tb)
Apply1(a, ta, x) == a * x + ta
THEOREM Compose1 ==
  \A a, ta, b, tb, x \in Int : Apply1(a * b, a * tb + ta, x) = Apply1(a, ta, Apply1(b, tb, x))
  <1> TAKE a, ta, b, tb, x \in Int
  <1>1. a * (b * x + tb) = a * b * x + a * tb
    <2>1. b * x \in Int  BY MulInt
    <2>2. a * (b * x + tb) = a * (b * x) + a * tb  OBVIOUS
    <2>3. a * (b * x) = a * b * x  BY Assoc3
    <2> QED BY <2>1, <2>2, <2>3
  <1> QED BY <1>1 DEF Apply1

\* N = 2, one row: the row (a1 a2 | ta) of A against B = (b11 b12 | tb1 ; b21 b22 | tb2)
RowOfProduct1(a1, a2, b11, b21) == a1 * b11 + a2 * b21            \* c_i1
RowOfProduct2(a1, a2, b12, b22) == a1 * b12 + a2 * b22            \* c_i2
RowOfProductT(a1, a2, ta, tb1, tb2) == a1 * tb1 + a2 * tb2 + ta   \* t_i
THEOREM ComposeRow2 ==
  \A a1, a2, ta, b11, b12, tb1, b21, b22, tb2, x1, x2 \in Int :
       RowOfProduct1(a1, a2, b11, b21) * x1 + RowOfProduct2(a1, a2, b12, b22) * x2 + RowOfProductT(a1, a2, ta, tb1, tb2)
     = a1 * (b11 * x1 + b12 * x2 + tb1) + a2 * (b21 * x1 + b22 * x2 + tb2) + ta
  <1> TAKE a1, a2, ta, b11, b12, tb1, b21, b22, tb2, x1, x2 \in Int
  <1>0. /\ b11 * x1 \in Int /\ b12 * x2 \in Int /\ b21 * x1 \in Int /\ b22 * x2 \in Int
        /\ a1 * b11 \in Int /\ a2 * b21 \in Int /\ a1 * b12 \in Int /\ a2 * b22 \in Int
    BY MulInt
  <1>1. a1 * (b11 * x1 + b12 * x2 + tb1) = a1 * (b11 * x1) + a1 * (b12 * x2) + a1 * tb1  BY <1>0, Dist3
  <1>2. a2 * (b21 * x1 + b22 * x2 + tb2) = a2 * (b21 * x1) + a2 * (b22 * x2) + a2 * tb2  BY <1>0, Dist3
  <1>3. /\ a1 * (b11 * x1) = a1 * b11 * x1 /\ a1 * (b12 * x2) = a1 * b12 * x2
        /\ a2 * (b21 * x1) = a2 * b21 * x1 /\ a2 * (b22 * x2) = a2 * b22 * x2
    BY Assoc3
  <1>4. (a1 * b11 + a2 * b21) * x1 = a1 * b11 * x1 + a2 * b21 * x1  BY <1>0, Fact2
  <1>5. (a1 * b12 + a2 * b22) * x2 = a1 * b12 * x2 + a2 * b22 * x2  BY <1>0, Fact2
  <1>6. /\ a1 * b11 * x1 \in Int /\ a2 * b21 * x1 \in Int /\ a1 * b12 * x2 \in Int /\ a2 * b22 * x2 \in Int
        /\ a1 * tb1 \in Int /\ a2 * tb2 \in Int
    BY <1>0, MulInt
  <1> DEFINE p1 == a1 * b11 * x1
  <1> DEFINE p2 == a2 * b21 * x1
  <1> DEFINE p3 == a1 * b12 * x2
  <1> DEFINE p4 == a2 * b22 * x2
  <1> DEFINE p5 == a1 * tb1
  <1> DEFINE p6 == a2 * tb2
  <1>7. RowOfProduct1(a1, a2, b11, b21) * x1 + RowOfProduct2(a1, a2, b12, b22) * x2 + RowOfProductT(a1, a2, ta, tb1, tb2)
          = (p1 + p2) + (p3 + p4) + (p5 + p6 + ta)
    BY <1>4, <1>5 DEF RowOfProduct1, RowOfProduct2, RowOfProductT
  <1>8. a1 * (b11 * x1 + b12 * x2 + tb1) + a2 * (b21 * x1 + b22 * x2 + tb2) + ta = (p1 + p3 + p5) + (p2 + p4 + p6) + ta
    BY <1>1, <1>2, <1>3
  <1>9. p1 \in Int /\ p2 \in Int /\ p3 \in Int /\ p4 \in Int /\ p5 \in Int /\ p6 \in Int  BY <1>6
  <1> HIDE DEF p1, p2, p3, p4, p5, p6
  <1> QED BY <1>7, <1>8, <1>9
=============================================================================
