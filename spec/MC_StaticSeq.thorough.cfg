SPECIFICATION Spec
CONSTANTS
  SortAlphabet = {0, 1, 2, 3, 4}
  SortMaxLen = 7
  PermAlphabet = {0, 1, 2, 3, 4}
  PermMaxLen = 4
  NRandom = 300
  Seed = 1
INVARIANTS SortLaw PermLaw FilterLaw
POSTCONDITION EmitCases
CHECK_DEADLOCK FALSE
