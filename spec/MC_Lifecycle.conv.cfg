SPECIFICATION Spec
CONSTANTS
  Slots <- Slots3
  Types <- TypesB
  ExtChoices <- ExtConv
  Vals = {0, 1}
  MaxOps = 5
  AssignImpl = "fixed"
  WM = 12
  ConstructSlots <- Only1
  Unbounded = FALSE
  Canon = FALSE
  LinK = 0
  ViewIds <- NoViews
  Ops <- ConvOps
INVARIANTS TypeOK Refines NoAlias NoUseAfterFree NoDoubleFree NoLeak ConfigKept RoundTrip
PROPERTIES SourceUnchanged
CHECK_DEADLOCK FALSE
