SPECIFICATION RSpec
CONSTANTS
  NVal = 1
  Seed = 1
  ReadImpl = "fixed"
  FaultKinds <- AllFaults
  WithLarge = FALSE
  TypeIds <- QuickTypes
INVARIANTS NeverReturnsOnFault AgreesWithParse RejectAgreesWithParse
PROPERTIES RejectsFault AcceptsIntact Terminates
POSTCONDITION EmitFaults
CHECK_DEADLOCK FALSE
