------------------------------ MODULE LayoutWR ------------------------------
(***************************************************************************)
(* C01 / C18 (sizing): a storage-order layer over array storage refines a  *)
(* plain N-dimensional array.                                              *)
(*   abstract  model : Box(s) -> Val                                       *)
(*   concrete  cells : 0..StorageSize-1 -> Val   (the heap block)          *)
(*   refinement      model[c] = cells[Idx(c)]                              *)
(* `Write(c, v)' is a write through a view at an in-range coordinate: the  *)
(* code stores at flat position Idx(c).  A write that lands outside the    *)
(* block is recorded in `oob' (the C++ would corrupt the heap).            *)
(* Read-your-write and non-interference are the invariant Refines; "only   *)
(* memory inside the field's own storage" is InStorage.                    *)
(***************************************************************************)
EXTENDS Layout, TLC, Json, IOUtils

CONSTANTS Dims,        \* set of dimensionalities
          ExtB,        \* function N |-> largest extent (extents 1..ExtB[N])
          LayoutsUsed, \* subset of Layouts
          MaxWrites,   \* history length bound
          WM           \* modelled word width

DimsAll == {1, 2, 3, 4}
Q1  == <<32, 8, 5, 3>>
Q1s == <<12, 6, 4, 3>>
T1  == <<64, 12, 6, 4>>
T2  == <<8, 4, 3, 2>>

Extents == UNION {[1..n -> 1..ExtB[n]] : n \in Dims}

VARIABLES layout, s, imap, cells, model, writes, oob
vars == <<layout, s, imap, cells, model, writes, oob>>

Size == StorageSize(layout, s)
I(c) == imap[c]      \* the index map of this (layout, extents), computed once at construction

Init == /\ layout \in LayoutsUsed
        /\ s \in Extents
        /\ Applicable(layout, s)
        /\ imap = [c \in Box(s) |-> Idx(layout, s, c, WM)]
        /\ cells = [i \in 0..(StorageSize(layout, s) - 1) |-> 0]
        /\ model = [c \in Box(s) |-> 0]
        /\ writes = 0
        /\ oob = FALSE

Write(c, v) == /\ writes < MaxWrites
               /\ writes' = writes + 1
               /\ model' = [model EXCEPT ![c] = v]
               /\ IF I(c) \in DOMAIN cells
                  THEN cells' = [cells EXCEPT ![I(c)] = v] /\ oob' = oob
                  ELSE cells' = cells /\ oob' = TRUE
               /\ UNCHANGED <<layout, s, imap>>

Next == \E c \in Box(s), v \in 1..MaxWrites : v = writes + 1 /\ Write(c, v)
Spec == Init /\ [][Next]_vars

\* every read through the view returns what the array model holds
Refines == \A c \in Box(s) : I(c) \in DOMAIN cells /\ model[c] = cells[I(c)]
InStorage == ~oob /\ \A c \in Box(s) : I(c) < Size
\* the allocation formula of the curve layouts, with the loops of numeric.hpp as coded
SizeLaw == layout # "strided" =>
             /\ Size = RoundPow2(MaxOf(s)) ^ Len(s)
             /\ \A c \in Box(s) : I(c) < Size
Injective == Cardinality({I(c) : c \in Box(s)}) = Cardinality(Box(s))

\* emission: one line per (layout, extents) with every coordinate's flat position
CaseOf(l, e) == [layout |-> l, ext |-> e, size |-> StorageSize(l, e),
                 box |-> LET b == SetToSeq(Box(e)) IN [k \in 1..Len(b) |-> [c |-> b[k], idx |-> Idx(l, e, b[k], WM)]]]
EmitCases == TLCGet("stats").generated >= 0 /\
  ndJsonSerialize(IOEnv.VF_OUT,
     SetToSeq({CaseOf(x[1], x[2]) : x \in {y \in LayoutsUsed \X Extents : Applicable(y[1], y[2])}}))
=============================================================================
