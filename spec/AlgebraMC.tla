------------------------------ MODULE AlgebraMC ------------------------------
(***************************************************************************)
(* E1 for C09: one TLC state per case (pair / chain of transforms + vector). *)
(*   FunctionLaw   Apply(Compose(A,B), v) = Apply(A, Apply(B, v))            *)
(*   ComposeLaw    Compose-as-coded = textbook composition                   *)
(*   ChainLaw      products of up to 4 factors, any association              *)
(*   FactoryLaw    translation / scaling / identity have their meaning       *)
(* N = 1: all matrices over Entries; N >= 2: a seeded deterministic sample.  *)
(***************************************************************************)
EXTENDS Algebra, TLC, Json, IOUtils, SequencesExt

CONSTANTS Entries,      \* sequence of admissible matrix entries
          VecEntries,   \* set of vector entries
          NSample,      \* function N |-> number of sampled matrices (N >= 2)
          Seed

VecQ == {-2, 0, 1, 3}
EntQ == <<-3, -2, -1, 0, 1, 2, 3>>
EntS == <<-2, -1, 0, 1, 3>>
SampleQ == <<0, 24, 10, 8>>
SampleT == <<0, 60, 30, 20>>

Mix(h) == ((h % 46337) * (h % 46337) + 12345) % 46337      \* stays below 2^31
Rnd(a, b, c, d) == Mix(Mix((a * 7919) + (b * 10473) + (c * 2731) + (d * 613) + ((Seed % 1000) * 3137)) + (a * 131) + (b * 17) + c)
SampleMat(N, k) == [i \in 1..N |-> [j \in 1..(N + 1) |-> Entries[(Rnd(k, i, j, N) % Len(Entries)) + 1]]]
Mats(N) == IF N = 1 THEN {<<<<a, b>>>> : a \in ToSet(Entries), b \in ToSet(Entries)}
           ELSE {SampleMat(N, k) : k \in 1..NSample[N]}
           \cup {Identity(N), Translation([i \in 1..N |-> i]), Scaling([i \in 1..N |-> i + 1])}
Vecs(N) == IF N <= 2 THEN [1..N -> VecEntries] ELSE {[i \in 1..N |-> ((i * k) % 5) - 2] : k \in 1..6}

VARIABLE kase
Init == \/ \E N \in 1..4 : \E A \in Mats(N), B \in Mats(N), v \in Vecs(N) : kase = [kind |-> "pair", n |-> N, A |-> A, B |-> B, v |-> v]
        \/ \E N \in 1..4, k \in 1..12 : kase = [kind |-> "chain", n |-> N,
                 Ms |-> <<SampleMat(N, k), SampleMat(N, k + 1), SampleMat(N, k + 2), SampleMat(N, k + 3)>>, v |-> [i \in 1..N |-> (i % 3) - 1]]
        \/ \E N \in 1..4 : \E v \in Vecs(N), t \in Vecs(N) : kase = [kind |-> "factory", n |-> N, t |-> t, v |-> v]
Next == UNCHANGED kase
Spec == Init /\ [][Next]_kase

FunctionLaw == kase.kind = "pair" => Apply(Compose(kase.A, kase.B), kase.v) = Apply(kase.A, Apply(kase.B, kase.v))
ComposeLaw == kase.kind = "pair" => Compose(kase.A, kase.B) = ComposeRef(kase.A, kase.B)
ChainLaw == kase.kind = "chain" =>
   LET A == kase.Ms[1]  B == kase.Ms[2]  C == kase.Ms[3]  D == kase.Ms[4]  v == kase.v IN
     /\ Apply(Compose(Compose(Compose(A, B), C), D), v) = Apply(A, Apply(B, Apply(C, Apply(D, v))))
     /\ Compose(Compose(A, B), Compose(C, D)) = Compose(A, Compose(B, Compose(C, D)))
     /\ Compose(Compose(Compose(A, B), C), D) = Compose(A, Compose(B, Compose(C, D)))
FactoryLaw == kase.kind = "factory" =>
   LET N == kase.n  t == kase.t  v == kase.v IN
     /\ Apply(Translation(t), v) = [i \in 1..N |-> v[i] + t[i]]
     /\ Apply(Scaling(t), v) = [i \in 1..N |-> v[i] * t[i]]
     /\ Apply(Identity(N), v) = v
     /\ Compose(Identity(N), Translation(t)) = Translation(t)
     /\ Compose(Translation(t), Scaling(t)) = [i \in 1..N |-> [j \in 1..(N + 1) |-> IF j = N + 1 THEN t[i] ELSE IF i = j THEN t[i] ELSE 0]]

\* general (non-square) matrix products, matrix.hpp:46-62: (R x K) * (K x C), seeded entries
Shapes == {<<1, 1, 1>>, <<2, 2, 2>>, <<3, 2, 4>>, <<2, 3, 1>>, <<3, 3, 3>>, <<1, 4, 2>>}
GenMat(r, c, k) == [i \in 1..r |-> [j \in 1..c |-> Entries[(Rnd(k, i, j, r + 7 * c) % Len(Entries)) + 1]]]
MatCase(sh, k) == [kind |-> "matmul", n |-> 1, shape |-> sh, P |-> GenMat(sh[1], sh[2], k), Q |-> GenMat(sh[2], sh[3], k + 50),
                   PQ |-> MatMul(GenMat(sh[1], sh[2], k), GenMat(sh[2], sh[3], k + 50))]
\* (A B) C = A (B C) for the chainable shapes, as a sanity law of the specification's MatMul
MatAssoc == \A k \in 1..6 : LET A == GenMat(3, 2, k)  B == GenMat(2, 4, k + 9)  C == GenMat(4, 2, k + 19) IN MatMul(MatMul(A, B), C) = MatMul(A, MatMul(B, C))
ASSUME MatAssoc

\* emission -----------------------------------------------------------------------
PairCase(N, A, B, v) == [kind |-> "pair", n |-> N, A |-> A, B |-> B, v |-> v, Bv |-> Apply(B, v), Av |-> Apply(A, v),
                         AB |-> Compose(A, B), ABv |-> Apply(A, Apply(B, v))]
ChainCase(N, k) == LET Ms == <<SampleMat(N, k), SampleMat(N, k + 1), SampleMat(N, k + 2), SampleMat(N, k + 3)>>
                       v == [i \in 1..N |-> (i % 3) - 1] IN
   [kind |-> "chain", n |-> N, Ms |-> Ms, v |-> v,
    prod |-> Compose(Compose(Compose(Ms[1], Ms[2]), Ms[3]), Ms[4]),
    r |-> Apply(Ms[1], Apply(Ms[2], Apply(Ms[3], Apply(Ms[4], v))))]
FactoryCase(N, t, v) == [kind |-> "factory", n |-> N, t |-> t, v |-> v, translated |-> [i \in 1..N |-> v[i] + t[i]],
                         scaled |-> [i \in 1..N |-> v[i] * t[i]], T |-> Translation(t), S |-> Scaling(t), I |-> Identity(N)]
EmitCases == TLCGet("stats").generated >= 0 /\
  ndJsonSerialize(IOEnv.VF_OUT,
     SetToSeq(UNION {{PairCase(N, A, B, v) : A \in Mats(N), B \in Mats(N), v \in Vecs(N)} : N \in 1..4})
     \o SetToSeq({ChainCase(N, k) : N \in 1..4, k \in 1..12})
     \o SetToSeq(UNION {{FactoryCase(N, t, v) : t \in Vecs(N), v \in Vecs(N)} : N \in 1..4})
     \o SetToSeq({MatCase(sh, k) : sh \in Shapes, k \in 1..8}))
=============================================================================
