SPECIFICATION Spec
CONSTANTS
  MaxDim = 5
  ExtBound <- QuickExt
INVARIANTS TypeOK OnlyInBoxOnce AtReturn
PROPERTIES FreshCalls Terminates
POSTCONDITION EmitCases
CHECK_DEADLOCK FALSE
