SPECIFICATION Spec
CONSTANTS
  Dims <- DimsAll
  ExtB <- T1
  LayoutsUsed <- Layouts
  MaxWrites = 1
  WM = 16
INVARIANTS Refines InStorage SizeLaw Injective
POSTCONDITION EmitCases
CHECK_DEADLOCK FALSE
