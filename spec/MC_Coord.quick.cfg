SPECIFICATION Spec
CONSTANTS
  MaxN = 2
  BoxRanks <- BoxQ
  Ranks <- RanksQ
  MaxLookups = 2
INVARIANTS ClampSafe BackupLaw
PROPERTIES NoQueryOutside OneQueryInside
POSTCONDITION EmitCases
CHECK_DEADLOCK FALSE
