SPECIFICATION Spec
CONSTANTS
  D = 4
  Exts <- ExtQ
  MaxNExh = 2
  MaxN = 5
  M = 3
INVARIANTS InterpolantLaw LatticeLaw RangeLaw CornerLaw WeightsSumLaw
POSTCONDITION EmitCases
CHECK_DEADLOCK FALSE
