--------------------------- MODULE Trace_Lifecycle ---------------------------
(***************************************************************************)
(* Code -> spec for the stateful heart of the library: a seeded random      *)
(* driver (harness/h_lifecycle.cpp, mode `drive') performs long histories   *)
(* of operations on real fields and logs, after every operation, the        *)
(* operation with its arguments and the projected state of every slot       *)
(* (state, type, extents, storage size, the value at every coordinate).     *)
(* Each event must be explained by the corresponding action of Lifecycle    *)
(* and the observed projection must equal the successor state's.  `Reset'   *)
(* events separate executions.                                             *)
(***************************************************************************)
EXTENDS Lifecycle, Json, IOUtils

Log == ndJsonDeserialize(IOEnv.VF_TRACE)
VARIABLE l
tvars == <<slot, heap, model, nblk, err, stream, ops, view, l>>

IsEvent(e) == l <= Len(Log) /\ Log[l].e = e /\ l' = l + 1
A == Log[l].args

\* the logged projection against the SUCCESSOR state
MatchNext(o) ==
  \A s \in Slots :
     /\ o.slots[s].st = slot'[s].st
     /\ (slot'[s].st = "live") =>
          /\ o.slots[s].ty = slot'[s].ty /\ o.slots[s].ext = slot'[s].ext /\ o.slots[s].size = slot'[s].size
          /\ \A i \in 1..Len(o.slots[s].vals) : model'[s][o.slots[s].vals[i].c] = o.slots[s].vals[i].v
          /\ Len(o.slots[s].vals) = Cardinality(DOMAIN model'[s])
\* long-lived views: the driver's own bookkeeping of which views are still usable must agree with the specification's, and
\* what was read through every usable view must be what the specification's storage holds
MatchViews(o) ==
  \A v \in ViewIds :
     /\ o.views[v].st = view'[v].st
     /\ (view'[v].st = "valid") =>
          /\ Len(o.views[v].vals) = Cardinality(Box(view'[v].ext))
          /\ \A i \in 1..Len(o.views[v].vals) : ViewCellsIn(heap', view'[v])[o.views[v].vals[i].c] = o.views[v].vals[i].v

TInit == Init /\ l = 1
TReset == IsEvent("Reset") /\ slot' = [s \in Slots |-> Dead] /\ heap' = [b \in BlkIds |-> [st |-> "unalloc", cells |-> <<>>]]
          /\ model' = [s \in Slots |-> <<>>] /\ nblk' = 0 /\ err' = "" /\ stream' = <<>> /\ ops' = 0
          /\ view' = [v \in ViewIds |-> NoView]
TStep ==
  \/ IsEvent("Construct") /\ Construct(A.s, A.ty, A.ext) /\ MatchNext(Log[l].after)
  \/ IsEvent("DefaultConstruct") /\ DefaultConstruct(A.s, A.ty, A.n) /\ MatchNext(Log[l].after)
  \/ IsEvent("Write") /\ Write(A.s, A.c, A.v) /\ MatchNext(Log[l].after)
  \/ IsEvent("CopyCtor") /\ CopyCtor(A.d, A.s) /\ MatchNext(Log[l].after)
  \/ IsEvent("MoveCtor") /\ MoveCtor(A.d, A.s) /\ MatchNext(Log[l].after)
  \/ IsEvent("CopyAssign") /\ (IF A.d = A.s THEN SelfCopyAssign(A.s) ELSE CopyAssign(A.d, A.s)) /\ MatchNext(Log[l].after)
  \/ IsEvent("MoveAssign") /\ (IF A.d = A.s THEN SelfMoveAssign(A.s) ELSE MoveAssign(A.d, A.s)) /\ MatchNext(Log[l].after)
  \/ IsEvent("Convert") /\ Convert(A.d, A.s, A.ty) /\ MatchNext(Log[l].after)
  \/ IsEvent("ConvertMove") /\ ConvertMove(A.d, A.s, A.ty) /\ MatchNext(Log[l].after)
  \/ IsEvent("Dump") /\ Dump(A.s) /\ MatchNext(Log[l].after)
  \/ IsEvent("Load") /\ Load(A.d) /\ MatchNext(Log[l].after)
  \/ IsEvent("Destroy") /\ Destroy(A.s) /\ MatchNext(Log[l].after)
  \/ IsEvent("Adopt") /\ Adopt(A.d, A.s, A.how) /\ MatchNext(Log[l].after)
  \/ IsEvent("MakeView") /\ MakeView(A.view, A.s) /\ MatchNext(Log[l].after)
  \/ IsEvent("DropView") /\ DropView(A.view) /\ MatchNext(Log[l].after)
  \/ IsEvent("WriteView") /\ WriteView(A.view, A.c, A.val) /\ MatchNext(Log[l].after)
TNext == TReset \/ (TStep /\ MatchViews(Log[l].after))
TSpec == TInit /\ [][TNext]_tvars

Accepted == IF TLCGet("stats").diameter - 1 = Len(Log)
            THEN TRUE
            ELSE /\ PrintT(<<"TRACE-REJECTED matched-prefix", TLCGet("stats").diameter - 1, "of", Len(Log)>>)
                 /\ FALSE
=============================================================================
