-------------------------------- MODULE Float --------------------------------
(***************************************************************************)
(* IEEE-754 binary32 / binary64 values as little-endian sequences of 16-bit *)
(* limbs (2 resp. 4 limbs), and the two conversions the binary reader       *)
(* performs when the on-disk width differs from the in-memory type          *)
(* (primitive/array.hpp:133-146): Widen is exact, Narrow is round-to-       *)
(* nearest-even with gradual underflow.  Pure integer arithmetic below      *)
(* 2^31, independent of the hardware conversion it is the oracle for.       *)
(***************************************************************************)
EXTENDS Naturals, Sequences

\* ---- binary32: limbs <<lo, hi>> ; hi = s(1) e(8) m(7) ; lo = m(16)
F32(s, e, m) == <<m % 65536, (s * 32768) + (e * 128) + (m \div 65536)>>         \* m < 2^23
F32s(x) == x[2] \div 32768
F32e(x) == (x[2] \div 128) % 256
F32m(x) == ((x[2] % 128) * 65536) + x[1]

\* ---- binary64: limbs <<l0, l1, l2, l3>> ; l3 = s(1) e(11) m(4) ; mantissa split as hi23 (top 23 bits) and lo29
F64(s, e, hi23, lo29) ==
  <<lo29 % 65536,
    ((hi23 % 8) * 8192) + (lo29 \div 65536),
    (hi23 \div 8) % 65536,
    (s * 32768) + (e * 16) + (hi23 \div 524288)>>
F64s(x) == x[4] \div 32768
F64e(x) == (x[4] \div 16) % 2048
F64hi(x) == ((x[4] % 16) * 524288) + (x[3] * 8) + (x[2] \div 8192)
F64lo(x) == ((x[2] % 8192) * 65536) + x[1]

IsFiniteF32(x) == F32e(x) # 255
IsFiniteF64(x) == F64e(x) # 2047

\* position of the leading one of m (m > 0)
RECURSIVE Msb(_)
Msb(m) == IF m < 2 THEN 0 ELSE 1 + Msb(m \div 2)

\* float -> double, exact
Widen(x) ==
  LET s == F32s(x)  e == F32e(x)  m == F32m(x) IN
  IF e = 255 THEN F64(s, 2047, m, 0)                                   \* inf / NaN payload kept in the top bits
  ELSE IF e = 0 /\ m = 0 THEN F64(s, 0, 0, 0)                          \* signed zero
  ELSE IF e = 0 THEN                                                    \* subnormal float: normal double
       LET p == Msb(m) IN F64(s, (p - 149) + 1023, (m - 2 ^ p) * 2 ^ (23 - p), 0)
  ELSE F64(s, (e - 127) + 1023, m, 0)

\* round a 24+k bit significand: sig (with the hidden bit) shifted right by sh (>= 0) with round-to-nearest-even
\* on the discarded bits `rest' (below sig, nrest bits wide, sticky-complete)
RoundShift(sig, rest, nrest, sh) ==
  \* value = (sig * 2^nrest + rest) / 2^(nrest + sh); returns the rounded integer
  LET kept == sig \div (2 ^ sh)
      dropHi == sig % (2 ^ sh)                 \* discarded bits that came from sig
      \* half and sticky computed on the concatenation dropHi : rest
      isHalfOrMore == IF sh > 0 THEN dropHi >= 2 ^ (sh - 1) ELSE rest >= 2 ^ (nrest - 1)
      isExactHalf == IF sh > 0 THEN dropHi = 2 ^ (sh - 1) /\ rest = 0 ELSE rest = 2 ^ (nrest - 1)
  IN IF ~isHalfOrMore THEN kept
     ELSE IF isExactHalf THEN (IF kept % 2 = 1 THEN kept + 1 ELSE kept)
     ELSE kept + 1

\* double -> float, round to nearest even, gradual underflow; finite inputs whose result is finite
Narrow(x) ==
  LET s == F64s(x)  e == F64e(x)  hi == F64hi(x)  lo == F64lo(x) IN
  IF e = 2047 THEN F32(s, 255, hi)                                      \* inf, NaN top payload bits (outside the stated domain)
  ELSE IF e = 0 THEN F32(s, 0, 0)                                       \* +-0 and double subnormals: far below float range
  ELSE
    LET E == e - 1023                          \* unbiased exponent; significand = 2^23 + hi (24 bits) followed by lo (29 bits)
        sig == 8388608 + hi
    IN IF E + 127 >= 1
       THEN LET r == RoundShift(sig, lo, 29, 0) IN
            IF r = 16777216 THEN (IF E + 128 >= 255 THEN F32(s, 255, 0) ELSE F32(s, E + 128, 0))     \* carry out of the significand
            ELSE (IF E + 127 >= 255 THEN F32(s, 255, 0) ELSE F32(s, E + 127, r - 8388608))
       ELSE LET sh == 1 - (E + 127) IN            \* subnormal result: shift the 24-bit significand further right
            IF sh > 25 THEN F32(s, 0, 0)
            ELSE LET r == RoundShift(sig, lo, 29, sh) IN
                 IF r >= 8388608 THEN F32(s, 1, r - 8388608) ELSE F32(s, 0, r)

\* order on finite floats via (sign, exponent, mantissa)
KeyF32(x) == (F32e(x) * 8388608) + F32m(x)      \* magnitude key (monotone in |x|)
=============================================================================
