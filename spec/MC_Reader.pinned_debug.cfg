SPECIFICATION RSpec
CONSTANTS
  NVal = 1
  Seed = 1
  ReadImpl = "pinned_debug"
  FaultKinds <- TruncOnly
  WithLarge = FALSE
  TypeIds <- OnlyArray
INVARIANTS NeverReturnsOnFault AgreesWithParse RejectAgreesWithParse
PROPERTIES RejectsFault AcceptsIntact Terminates
CHECK_DEADLOCK FALSE
