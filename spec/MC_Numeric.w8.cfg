SPECIFICATION Spec
CONSTANTS
  W = 8
  Prog = "both"
  RpInputs <- RpDomain
  IpBases <- AllW
  IpExps <- AllW
INVARIANTS TypeOK RP_Correct RP_LoopInv IP_Correct IP_LoopInv
PROPERTIES Terminates
POSTCONDITION EmitCases
CHECK_DEADLOCK FALSE
