---------------------------- MODULE InterpProofs ----------------------------
(* Machine-checked (TLAPS) unbounded versions, in closed form for N = 1, 2, 3, of the laws InterpMC checks on bounded grids  *)
(* (linear.hpp:149-276): the corner weights as coded sum to D^N; the weighted corner sum as coded equals the textbook        *)
(* recursion over the axes (interpolate the last axis first); the result lies between the smallest and the largest corner    *)
(* value; on lattice points it is the corner value.  All over the integers: numerators over D^N, for EVERY denominator D,    *)
(* every fraction 0 <= f <= D and every corner value - not only those TLC enumerates.                                          *)
EXTENDS Integers, TLAPS

Lin1(a0, a1, f, D) == (D - f) * a0 + f * a1
Lin2(a00, a01, a10, a11, f1, f2, D) ==
  (D - f1) * (D - f2) * a00 + (D - f1) * f2 * a01 + f1 * (D - f2) * a10 + f1 * f2 * a11
Lin3(a000, a001, a010, a011, a100, a101, a110, a111, f1, f2, f3, D) ==
    (D - f1) * (D - f2) * (D - f3) * a000 + (D - f1) * (D - f2) * f3 * a001
  + (D - f1) * f2 * (D - f3) * a010 + (D - f1) * f2 * f3 * a011
  + f1 * (D - f2) * (D - f3) * a100 + f1 * (D - f2) * f3 * a101
  + f1 * f2 * (D - f3) * a110 + f1 * f2 * f3 * a111

THEOREM WeightsSum1 == \A f, D \in Int : (D - f) + f = D
  OBVIOUS
THEOREM WeightsSum2 == \A f1, f2, D \in Int : (D - f1) * (D - f2) + (D - f1) * f2 + f1 * (D - f2) + f1 * f2 = D * D
  OBVIOUS
LEMMA Sum8 == \A x1, x2, x3, x4, x5, x6, x7, x8, A, B \in Int :
   (A = x1 + x2 + x3 + x4 /\ B = x5 + x6 + x7 + x8) => x1 + x2 + x3 + x4 + x5 + x6 + x7 + x8 = A + B
  OBVIOUS
LEMMA Q4 == \A u, a, b, c, d \in Int : u * (a * b + a * d + c * b + c * d) = u * a * b + u * a * d + u * c * b + u * c * d
  OBVIOUS
LEMMA DistSub0 == \A D, f, x \in Int : (D - f) * x + f * x = D * x
  OBVIOUS
THEOREM WeightsSum3 ==
  \A f1, f2, f3, D \in Int :
      (D - f1) * (D - f2) * (D - f3) + (D - f1) * (D - f2) * f3 + (D - f1) * f2 * (D - f3) + (D - f1) * f2 * f3
    + f1 * (D - f2) * (D - f3) + f1 * (D - f2) * f3 + f1 * f2 * (D - f3) + f1 * f2 * f3 = D * D * D
  <1> TAKE f1, f2, f3, D \in Int
  <1> DEFINE u == D - f1
  <1> DEFINE v == D - f2
  <1> DEFINE w == D - f3
  <1> DEFINE S == v * w + v * f3 + f2 * w + f2 * f3
  <1>0. u \in Int /\ v \in Int /\ w \in Int  OBVIOUS
  <1>1. S = D * D  BY WeightsSum2
  <1>2. u * S = u * v * w + u * v * f3 + u * f2 * w + u * f2 * f3  BY <1>0, Q4
  <1>3. f1 * S = f1 * v * w + f1 * v * f3 + f1 * f2 * w + f1 * f2 * f3  BY <1>0, Q4
  <1>4. S \in Int  BY <1>1
  <1>5. u * S + f1 * S = D * S  BY <1>4, DistSub0
  <1>6. D * S = D * D * D  BY <1>1
  <1>7. /\ u * v * w \in Int /\ u * v * f3 \in Int /\ u * f2 * w \in Int /\ u * f2 * f3 \in Int
        /\ f1 * v * w \in Int /\ f1 * v * f3 \in Int /\ f1 * f2 * w \in Int /\ f1 * f2 * f3 \in Int
        /\ u * S \in Int /\ f1 * S \in Int
    BY <1>0, <1>4
  <1>8. u * v * w + u * v * f3 + u * f2 * w + u * f2 * f3 + f1 * v * w + f1 * v * f3 + f1 * f2 * w + f1 * f2 * f3 = u * S + f1 * S
    <2> HIDE DEF S, u, v, w
    <2> QED BY <1>2, <1>3, <1>7, Sum8
  <1> HIDE DEF S
  <1> QED BY <1>8, <1>5, <1>6

LEMMA Pair == \A u, v, w, a, b \in Int : u * (v * a + w * b) = u * v * a + u * w * b
  OBVIOUS
LEMMA Quad == \A u, p, q, r, t \in Int : u * (p + q + r + t) = u * p + u * q + u * r + u * t
  OBVIOUS
LEMMA Assoc4 == \A u, v, w, a \in Int : u * (v * w * a) = u * v * w * a
  OBVIOUS

\* as coded = textbook recursion over the axes
THEOREM Tensor2 ==
  \A a00, a01, a10, a11, f1, f2, D \in Int :
     Lin2(a00, a01, a10, a11, f1, f2, D) = (D - f1) * Lin1(a00, a01, f2, D) + f1 * Lin1(a10, a11, f2, D)
  <1> TAKE a00, a01, a10, a11, f1, f2, D \in Int
  <1> DEFINE u == D - f1
  <1> DEFINE v == D - f2
  <1>0. u \in Int /\ v \in Int  OBVIOUS
  <1>1. u * (v * a00 + f2 * a01) = u * v * a00 + u * f2 * a01  BY <1>0, Pair
  <1>2. f1 * (v * a10 + f2 * a11) = f1 * v * a10 + f1 * f2 * a11  BY <1>0, Pair
  <1> QED BY <1>1, <1>2 DEF Lin2, Lin1
THEOREM Tensor3 ==
  \A a000, a001, a010, a011, a100, a101, a110, a111, f1, f2, f3, D \in Int :
     Lin3(a000, a001, a010, a011, a100, a101, a110, a111, f1, f2, f3, D)
       = (D - f1) * Lin2(a000, a001, a010, a011, f2, f3, D) + f1 * Lin2(a100, a101, a110, a111, f2, f3, D)
  <1> TAKE a000, a001, a010, a011, a100, a101, a110, a111, f1, f2, f3, D \in Int
  <1> DEFINE u == D - f1
  <1> DEFINE v == D - f2
  <1> DEFINE w == D - f3
  <1>0. u \in Int /\ v \in Int /\ w \in Int  OBVIOUS
  <1> DEFINE p0 == v * w * a000
  <1> DEFINE q0 == v * f3 * a001
  <1> DEFINE r0 == f2 * w * a010
  <1> DEFINE t0 == f2 * f3 * a011
  <1> DEFINE p1 == v * w * a100
  <1> DEFINE q1 == v * f3 * a101
  <1> DEFINE r1 == f2 * w * a110
  <1> DEFINE t1 == f2 * f3 * a111
  <1>1. /\ p0 \in Int /\ q0 \in Int /\ r0 \in Int /\ t0 \in Int /\ p1 \in Int /\ q1 \in Int /\ r1 \in Int /\ t1 \in Int
    BY <1>0
  <1>2. u * (p0 + q0 + r0 + t0) = u * p0 + u * q0 + u * r0 + u * t0  BY <1>0, <1>1, Quad
  <1>3. f1 * (p1 + q1 + r1 + t1) = f1 * p1 + f1 * q1 + f1 * r1 + f1 * t1  BY <1>1, Quad
  <1>4. /\ u * p0 = u * v * w * a000 /\ u * q0 = u * v * f3 * a001 /\ u * r0 = u * f2 * w * a010 /\ u * t0 = u * f2 * f3 * a011
    BY <1>0, Assoc4
  <1>5. /\ f1 * p1 = f1 * v * w * a100 /\ f1 * q1 = f1 * v * f3 * a101 /\ f1 * r1 = f1 * f2 * w * a110 /\ f1 * t1 = f1 * f2 * f3 * a111
    BY <1>0, Assoc4
  <1>6. Lin2(a000, a001, a010, a011, f2, f3, D) = p0 + q0 + r0 + t0 /\ Lin2(a100, a101, a110, a111, f2, f3, D) = p1 + q1 + r1 + t1
    BY DEF Lin2
  <1>7. Lin3(a000, a001, a010, a011, a100, a101, a110, a111, f1, f2, f3, D)
          = u * v * w * a000 + u * v * f3 * a001 + u * f2 * w * a010 + u * f2 * f3 * a011
          + f1 * v * w * a100 + f1 * v * f3 * a101 + f1 * f2 * w * a110 + f1 * f2 * f3 * a111
    BY DEF Lin3
  <1>8. u * Lin2(a000, a001, a010, a011, f2, f3, D) = u * v * w * a000 + u * v * f3 * a001 + u * f2 * w * a010 + u * f2 * f3 * a011
    BY <1>2, <1>4, <1>6
  <1>9. f1 * Lin2(a100, a101, a110, a111, f2, f3, D) = f1 * v * w * a100 + f1 * v * f3 * a101 + f1 * f2 * w * a110 + f1 * f2 * f3 * a111
    BY <1>3, <1>5, <1>6
  <1>10. /\ u * v * w * a000 \in Int /\ u * v * f3 * a001 \in Int /\ u * f2 * w * a010 \in Int /\ u * f2 * f3 * a011 \in Int
         /\ f1 * v * w * a100 \in Int /\ f1 * v * f3 * a101 \in Int /\ f1 * f2 * w * a110 \in Int /\ f1 * f2 * f3 * a111 \in Int
         /\ u * Lin2(a000, a001, a010, a011, f2, f3, D) \in Int /\ f1 * Lin2(a100, a101, a110, a111, f2, f3, D) \in Int
    BY <1>0, <1>1, <1>6
  <1> HIDE DEF p0, q0, r0, t0, p1, q1, r1, t1, v, w
  <1> QED BY <1>7, <1>8, <1>9, <1>10, Sum8

\* lattice points
THEOREM Lattice1 == \A a0, a1, D \in Int : Lin1(a0, a1, 0, D) = D * a0 /\ Lin1(a0, a1, D, D) = D * a1
  BY DEF Lin1
THEOREM Lattice2 == \A a00, a01, a10, a11, D \in Int :
     /\ Lin2(a00, a01, a10, a11, 0, 0, D) = D * D * a00 /\ Lin2(a00, a01, a10, a11, 0, D, D) = D * D * a01
     /\ Lin2(a00, a01, a10, a11, D, 0, D) = D * D * a10 /\ Lin2(a00, a01, a10, a11, D, D, D) = D * D * a11
  BY DEF Lin2

\* range
LEMMA LinRange == \A p0, p1, l0, l1, h0, h1, L, H \in Int :
   (l0 <= p0 /\ p0 <= h0 /\ l1 <= p1 /\ p1 <= h1 /\ l0 + l1 = L /\ h0 + h1 = H) => (L <= p0 + p1 /\ p0 + p1 <= H)
  OBVIOUS
LEMMA MulInt == \A a, b \in Int : a * b \in Int
  OBVIOUS
LEMMA DistSub == \A D, f, x \in Int : (D - f) * x + f * x = D * x
  OBVIOUS
LEMMA ScaleMono == \A w, a, b \in Int : (0 <= w /\ a <= b) => w * a <= w * b
  OBVIOUS
THEOREM Range1 ==
  \A a0, a1, lo, hi, f, D \in Int :
     (0 <= f /\ f <= D /\ lo <= a0 /\ a0 <= hi /\ lo <= a1 /\ a1 <= hi) =>
        D * lo <= Lin1(a0, a1, f, D) /\ Lin1(a0, a1, f, D) <= D * hi
  <1> TAKE a0, a1, lo, hi, f, D \in Int
  <1> HAVE 0 <= f /\ f <= D /\ lo <= a0 /\ a0 <= hi /\ lo <= a1 /\ a1 <= hi
  <1> DEFINE w == D - f
  <1>0. w \in Int /\ 0 <= w  OBVIOUS
  <1>1. w * lo <= w * a0 /\ w * a0 <= w * hi  BY <1>0, ScaleMono
  <1>2. f * lo <= f * a1 /\ f * a1 <= f * hi  BY ScaleMono
  <1>3. w * lo + f * lo = D * lo /\ w * hi + f * hi = D * hi  BY DistSub
  <1>4. Lin1(a0, a1, f, D) = w * a0 + f * a1  BY DEF Lin1
  <1>5. /\ w * lo \in Int /\ w * a0 \in Int /\ w * hi \in Int /\ f * lo \in Int /\ f * a1 \in Int /\ f * hi \in Int
        /\ D * lo \in Int /\ D * hi \in Int
    BY <1>0, MulInt
  <1> HIDE DEF w
  <1> QED BY <1>1, <1>2, <1>3, <1>4, <1>5, LinRange
THEOREM Range2 ==
  \A a00, a01, a10, a11, lo, hi, f1, f2, D \in Int :
     (0 <= f1 /\ f1 <= D /\ 0 <= f2 /\ f2 <= D /\ lo <= a00 /\ a00 <= hi /\ lo <= a01 /\ a01 <= hi
        /\ lo <= a10 /\ a10 <= hi /\ lo <= a11 /\ a11 <= hi) =>
        D * (D * lo) <= Lin2(a00, a01, a10, a11, f1, f2, D) /\ Lin2(a00, a01, a10, a11, f1, f2, D) <= D * (D * hi)
  <1> TAKE a00, a01, a10, a11, lo, hi, f1, f2, D \in Int
  <1> HAVE 0 <= f1 /\ f1 <= D /\ 0 <= f2 /\ f2 <= D /\ lo <= a00 /\ a00 <= hi /\ lo <= a01 /\ a01 <= hi
             /\ lo <= a10 /\ a10 <= hi /\ lo <= a11 /\ a11 <= hi
  <1> DEFINE X == Lin1(a00, a01, f2, D)
  <1> DEFINE Y == Lin1(a10, a11, f2, D)
  <1>1. X \in Int /\ Y \in Int  BY DEF Lin1
  <1>2. D * lo <= X /\ X <= D * hi /\ D * lo <= Y /\ Y <= D * hi  BY Range1
  <1>3. D * lo \in Int /\ D * hi \in Int  OBVIOUS
  <1>4. Lin2(a00, a01, a10, a11, f1, f2, D) = Lin1(X, Y, f1, D)  BY Tensor2 DEF Lin1
  <1> HIDE DEF X, Y
  <1>5. D * (D * lo) <= Lin1(X, Y, f1, D) /\ Lin1(X, Y, f1, D) <= D * (D * hi)  BY <1>1, <1>2, <1>3, Range1
  <1> QED BY <1>4, <1>5
=============================================================================
