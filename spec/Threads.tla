------------------------------- MODULE Threads -------------------------------
(***************************************************************************)
(* C16: concurrent lookups (and writes to disjoint coordinates) through     *)
(* views of one field.  The library has no synchronisation, so a lookup is  *)
(* modelled as what it is: a sequence of single-cell reads of the storage   *)
(* block (its Footprint: one cell for a direct or nearest-neighbour lookup, *)
(* the 2^N cell vertices for linear interpolation, each at the position the *)
(* storage order assigns), and a write as one single-cell write.  Any two   *)
(* co-enabled accesses to one cell with a write among them are a data race. *)
(*                                                                         *)
(* Precondition (as the property states): the LOGICAL coordinates a writer  *)
(* writes are disjoint from the logical coordinates any other thread reads  *)
(* or writes.  What TLC establishes is the implication                      *)
(*     logical disjointness  =>  no race and sequential results,            *)
(* for every schedule - it rests on the injectivity of every storage order  *)
(* (C01) and on lookups touching only the cells of the coordinates they     *)
(* logically read.                                                          *)
(***************************************************************************)
EXTENDS Layout, TLC, Json, IOUtils

I == INSTANCE Interp

CONSTANTS NThreads, LayoutsUsed, Interps, ExtT, WM, MaxWriters

Threads == 1..NThreads
LayoutsAll == {"strided", "morton", "morton_portable", "hilbert"}
InterpsAll == {"direct", "nearest", "linear"}
ExtA == <<3, 2>>
ExtB == <<2, 2>>

\* an operation: [op |-> "look", c |-> lattice cell (the lower corner), frac |-> BOOLEAN] or [op |-> "write", c, v]
\* logical coordinates an operation reads
LogicalReads(o, interp) ==
  IF o.op = "write" THEN {}
  ELSE IF interp = "linear" THEN {[k \in 1..2 |-> o.c[k] + b[k]] : b \in [1..2 -> {0, 1}]}
  ELSE {o.c}
LogicalWrites(o) == IF o.op = "write" THEN {o.c} ELSE {}

Cell(layout, c) == Idx(layout, ExtT, c, WM)
\* the cells one operation touches, in the order the code touches them (order irrelevant for the properties)
Accesses(layout, interp, o) ==
  IF o.op = "write" THEN <<[kind |-> "w", cell |-> Cell(layout, o.c), v |-> o.v]>>
  ELSE IF interp = "linear"
       THEN [n \in 1..4 |-> [kind |-> "r", cell |-> Cell(layout, [k \in 1..2 |-> o.c[k] + I!Corner(2, n - 1, k)])]]
       ELSE <<[kind |-> "r", cell |-> Cell(layout, o.c)]>>

\* programs: every thread performs two operations; lookups need the upper neighbour inside the extents for linear
LookCells(interp) == IF interp = "linear" THEN {c \in Box(ExtT) : \A k \in 1..2 : c[k] + 1 < ExtT[k]} ELSE Box(ExtT)
OpsOf(interp) == {[op |-> "look", c |-> c] : c \in LookCells(interp)} \cup {[op |-> "write", c |-> c, v |-> 7] : c \in Box(ExtT)}
Programs(interp) == [Threads -> [1..2 -> OpsOf(interp)]]
Disjoint(P, interp) ==
  /\ \A t \in Threads, u \in Threads : t # u =>
       \A i \in 1..2, j \in 1..2 :
          LogicalWrites(P[t][i]) \cap (LogicalReads(P[u][j], interp) \cup LogicalWrites(P[u][j])) = {}
  /\ Cardinality({t \in Threads : \E i \in 1..2 : P[t][i].op = "write"}) <= MaxWriters
\* canonical representatives only: thread t's first operation is not "larger" than thread t+1's (symmetry of threads)
Key(o) == (IF o.op = "write" THEN 100 ELSE 0) + 10 * o.c[1] + o.c[2]
Canonical(P) == \A t \in 1..(NThreads - 1) : Key(P[t][1]) <= Key(P[t + 1][1])

VARIABLES layout, interp, prog, pc, mem, acc
vars == <<layout, interp, prog, pc, mem, acc>>

InitMem(l) == [i \in 0..(StorageSize(l, ExtT) - 1) |-> 0]
Init == /\ layout \in LayoutsUsed /\ interp \in Interps
        /\ prog \in {P \in Programs(interp) : Disjoint(P, interp) /\ Canonical(P)}
        /\ pc = [t \in Threads |-> [op |-> 1, sub |-> 1]]
        /\ mem = [i \in 0..(StorageSize(layout, ExtT) - 1) |-> 100 + i]       \* distinct initial contents
        /\ acc = [t \in Threads |-> <<>>]

Done(t) == pc[t].op > 2
Current(t) == Accesses(layout, interp, prog[t][pc[t].op])
NextAccess(t) == Current(t)[pc[t].sub]

Step(t) ==
  /\ ~Done(t)
  /\ LET a == NextAccess(t)
         last == pc[t].sub = Len(Current(t)) IN
       /\ IF a.kind = "w" THEN mem' = [mem EXCEPT ![a.cell] = a.v] /\ acc' = acc
          ELSE mem' = mem /\ acc' = [acc EXCEPT ![t] = Append(@, mem[a.cell])]
       /\ pc' = [pc EXCEPT ![t] = IF last THEN [op |-> pc[t].op + 1, sub |-> 1] ELSE [op |-> pc[t].op, sub |-> pc[t].sub + 1]]
  /\ UNCHANGED <<layout, interp, prog>>

Next == \E t \in Threads : Step(t)
Spec == Init /\ [][Next]_vars /\ WF_vars(Next)

\* two threads are about to touch the same cell and one of them writes: a data race
RaceFree == \A t \in Threads, u \in Threads :
   (t # u /\ ~Done(t) /\ ~Done(u)) =>
      LET a == NextAccess(t)  b == NextAccess(u) IN ~(a.cell = b.cell /\ (a.kind = "w" \/ b.kind = "w"))
InBounds == \A t \in Threads : ~Done(t) => NextAccess(t).cell \in DOMAIN mem

\* what a sequential execution (thread 1, then 2, ...) obtains: with the precondition, what a thread reads never
\* depends on the others, so it is the initial contents overlaid with the thread's own earlier writes
RECURSIVE SeqRun(_, _, _)
SeqRun(m, as, out) == IF as = <<>> THEN out
                      ELSE LET a == Head(as) IN
                           IF a.kind = "w" THEN SeqRun([m EXCEPT ![a.cell] = a.v], Tail(as), out)
                           ELSE SeqRun(m, Tail(as), Append(out, m[a.cell]))
SeqAcc(t) == SeqRun([i \in DOMAIN mem |-> 100 + i], Accesses(layout, interp, prog[t][1]) \o Accesses(layout, interp, prog[t][2]), <<>>)
Deterministic == (\A t \in Threads : Done(t)) => \A t \in Threads : acc[t] = SeqAcc(t)
Terminates == <>(\A t \in Threads : Done(t))

\* emission of the thread programs (with the sequential results) for the TSan harness
CaseOf(l, ip, P) == [layout |-> l, interp |-> ip, ext |-> ExtT, prog |-> P,
                     expect |-> [t \in Threads |-> SeqRun([i \in 0..(StorageSize(l, ExtT) - 1) |-> 100 + i],
                                                           Accesses(l, ip, P[t][1]) \o Accesses(l, ip, P[t][2]), <<>>)]]
EmitCases == TLCGet("stats").generated >= 0 /\
  ndJsonSerialize(IOEnv.VF_OUT,
     SetToSeq(UNION {UNION {{CaseOf(l, ip, P) : P \in {Q \in Programs(ip) : Disjoint(Q, ip) /\ Canonical(Q)}} : ip \in Interps} : l \in LayoutsUsed}))
=============================================================================
