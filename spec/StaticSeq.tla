------------------------------ MODULE StaticSeq ------------------------------
(***************************************************************************)
(* covfie/core/utility/static_permutation.hpp: compile-time filter /        *)
(* concatenate / pivot-sort on index sequences and the permutation          *)
(* predicate, transcribed clause by clause (one operator per template       *)
(* specialisation).  Laws (C20): Sort(s) is the ascending rearrangement of  *)
(* the same multiset; IsPerm(a, b) holds exactly for equal multisets.       *)
(***************************************************************************)
EXTENDS Naturals, Sequences, FiniteSets, TLC, Json, IOUtils, SequencesExt

CONSTANTS SortAlphabet, SortMaxLen, PermAlphabet, PermMaxLen, NRandom, Seed

\* filter_index_sequence_lt<N, seq>: empty -> empty; <V, Vs...> -> concat(V < N ? <V> : <>, filter(Vs...))
RECURSIVE FilterLt(_, _)
FilterLt(n, s) == IF s = <<>> THEN <<>>
                  ELSE (IF Head(s) < n THEN <<Head(s)>> ELSE <<>>) \o FilterLt(n, Tail(s))

RECURSIVE FilterGeq(_, _)
FilterGeq(n, s) == IF s = <<>> THEN <<>>
                   ELSE (IF Head(s) >= n THEN <<Head(s)>> ELSE <<>>) \o FilterGeq(n, Tail(s))

\* sort_index_sequence: empty -> empty; <N, Ns...> -> concat(sort(lt(N, Ns)), concat(<N>, sort(geq(N, Ns))))
RECURSIVE Sort(_)
Sort(s) == IF s = <<>> THEN <<>>
           ELSE Sort(FilterLt(Head(s), Tail(s))) \o (<<Head(s)>> \o Sort(FilterGeq(Head(s), Tail(s))))

\* is_permutation: is_same<sort(Us), sort(Vs)>
IsPerm(a, b) == Sort(a) = Sort(b)

\* reference notions -----------------------------------------------------------
Count(v, s) == Cardinality({i \in 1..Len(s) : s[i] = v})
SameMultiset(a, b) == Len(a) = Len(b) /\ \A v \in ToSet(a) \cup ToSet(b) : Count(v, a) = Count(v, b)
Ascending(s) == \A i \in 1..(Len(s) - 1) : s[i] <= s[i + 1]

SeqsUpTo(A, n) == UNION {[1..k -> A] : k \in 0..n}

VARIABLE kase
Init == \/ \E s \in SeqsUpTo(SortAlphabet, SortMaxLen) : kase = [kind |-> "sort", s |-> s]
        \/ \E a \in SeqsUpTo(PermAlphabet, PermMaxLen), b \in SeqsUpTo(PermAlphabet, PermMaxLen) :
              kase = [kind |-> "perm", a |-> a, b |-> b]
Next == UNCHANGED kase
Spec == Init /\ [][Next]_kase

SortLaw == kase.kind = "sort" => Ascending(Sort(kase.s)) /\ SameMultiset(Sort(kase.s), kase.s)
PermLaw == kase.kind = "perm" => (IsPerm(kase.a, kase.b) <=> SameMultiset(kase.a, kase.b))
\* sub-laws of the helper templates
FilterLaw == kase.kind = "sort" /\ kase.s # <<>> =>
   LET n == Head(kase.s)  t == Tail(kase.s) IN
     /\ SameMultiset(FilterLt(n, t) \o FilterGeq(n, t), t)
     /\ \A i \in 1..Len(FilterLt(n, t)) : FilterLt(n, t)[i] < n
     /\ \A i \in 1..Len(FilterGeq(n, t)) : FilterGeq(n, t)[i] >= n

\* seeded longer sequences with large values: a deterministic generator over (Seed, k, i), so that
\* repeated evaluation by TLC is consistent
\* The metaprograms only compare values, so an order-preserving renaming of the values is exact: TLC works on
\* ranks 0..15 and the code generator maps rank r to the r-th element of
\*   0, 1, 2, 3, 7, 8, 255, 256, 65535, 65536, 2^31-1, 2^32, 2^63-1, 2^63, SIZE_MAX-1, SIZE_MAX
\* (values TLC's 32-bit integers could not hold).
BigAlphabet == <<0, 1, 2, 3, 4, 5, 6, 7, 8, 9, 10, 11, 12, 13, 14, 15>>
Rnd(k, i) == ((((k * 7919) + (i * 10473) + ((Seed % 1000) * 3137) + (k * i * 31)) % 100003) % Len(BigAlphabet)) + 1
RandSeq(k) == [i \in 1..(7 + (k % 27)) |-> BigAlphabet[Rnd(k, i)]]      \* lengths 7..33

EmitCases == TLCGet("stats").generated >= 0 /\
  LET rs == [k \in 1..NRandom |-> RandSeq(k)]
      rp == [k \in 1..NRandom |-> IF k % 2 = 0 THEN rs[k]   \* a shuffled copy / a near-copy
                                    ELSE [rs[k] EXCEPT ![1] = BigAlphabet[Rnd(k, 99)]]]
  IN /\ \A k \in 1..NRandom : Ascending(Sort(rs[k])) /\ SameMultiset(Sort(rs[k]), rs[k])
     /\ ndJsonSerialize(IOEnv.VF_OUT,
          SetToSeq({[kind |-> "sort", s |-> s, sorted |-> Sort(s)] : s \in SeqsUpTo(SortAlphabet, SortMaxLen)})
          \o [k \in 1..NRandom |-> [kind |-> "sort_rank", s |-> rs[k], sorted |-> Sort(rs[k])]]
          \o [k \in 1..NRandom |-> [kind |-> "perm_rank", a |-> rs[k], b |-> Reverse(rp[k]),
                                     r |-> SameMultiset(rs[k], Reverse(rp[k]))]]
          \o SetToSeq({[kind |-> "perm", a |-> p[1], b |-> p[2], r |-> SameMultiset(p[1], p[2])] :
                          p \in SeqsUpTo(PermAlphabet, PermMaxLen) \X SeqsUpTo(PermAlphabet, PermMaxLen)}))
=============================================================================
