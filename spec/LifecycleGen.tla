----------------------------- MODULE LifecycleGen -----------------------------
(* Lifecycle with operation labels and a history variable, used to generate  *)
(* behaviours for replay on the real library (E2).  `hist' is hidden from    *)
(* TLC's notion of state by the VIEW, so each abstract state is explored      *)
(* once; the ACTION_CONSTRAINT EmitHist writes the witness behaviour of every *)
(* generated TRANSITION (state-graph transition coverage), or only complete   *)
(* behaviours in simulation mode.  Each history entry carries the abstract    *)
(* state the specification prescribes after the step.                        *)
EXTENDS Lifecycle, Json, IOUtils

CONSTANT EmitAll
VARIABLE hist
gvars == <<slot, heap, model, nblk, err, stream, ops, view, hist>>
View == vars

SlotSnap(s) == [st |-> slot[s].st, ty |-> slot[s].ty, ext |-> slot[s].ext, size |-> slot[s].size,
                vals |-> IF slot[s].st = "live"
                         THEN LET b == SetToSeq(Box(slot[s].ext)) IN [k \in 1..Len(b) |-> [c |-> b[k], v |-> model[s][b[k]]]]
                         ELSE <<>>]
ViewSnap(v) == [st |-> view[v].st, ty |-> view[v].ty, ext |-> view[v].ext,
                vals |-> IF view[v].st = "valid"
                         THEN LET b == SetToSeq(Box(view[v].ext)) IN [k \in 1..Len(b) |-> [c |-> b[k], v |-> ViewCells(v)[b[k]]]]
                         ELSE <<>>]
Snapshot == [slots |-> [s \in Slots |-> SlotSnap(s)], blocks |-> OwnedBlocks, views |-> [v \in ViewIds |-> ViewSnap(v)]]
Rec(op, args) == hist' = Append(hist, [op |-> op, args |-> args, after |-> Snapshot'])

\* a Dump additionally records what the specification says was written: every cell of the storage block in storage order
\* (padding cells of the curve layouts included - they are zero until written, storage is value-initialised)
RecDump(s) == hist' = Append(hist, [op |-> "Dump", args |-> [s |-> s], after |-> Snapshot',
                                    dumped |-> [i \in 1..stream'.size |-> stream'.cells[i - 1]]])
GInit == Init /\ hist = <<>>
GNext ==
  \/ (On("Construct") /\ \E s \in ConstructSlots, ty \in Types : \E e \in ExtChoices :
        Construct(s, ty, e) /\ Rec("Construct", [s |-> s, ty |-> ty, ext |-> e, size |-> StorageSize(ty, e)]))
  \/ (On("Write") /\ \E s \in Slots : Live(s) /\ \E c \in Box(slot[s].ext), v \in Vals \ {0} :
        Write(s, c, v) /\ Rec("Write", [s |-> s, c |-> c, v |-> v]))
  \/ (On("CopyCtor") /\ \E d \in Slots, s \in Slots : CopyCtor(d, s) /\ Rec("CopyCtor", [d |-> d, s |-> s]))
  \/ (On("MoveCtor") /\ \E d \in Slots, s \in Slots : MoveCtor(d, s) /\ Rec("MoveCtor", [d |-> d, s |-> s]))
  \/ (On("CopyAssign") /\ \E d \in Slots, s \in Slots : CopyAssign(d, s) /\ Rec("CopyAssign", [d |-> d, s |-> s]))
  \/ (On("MoveAssign") /\ \E d \in Slots, s \in Slots : MoveAssign(d, s) /\ Rec("MoveAssign", [d |-> d, s |-> s]))
  \/ (On("CopyAssign") /\ \E s \in Slots : SelfCopyAssign(s) /\ Rec("CopyAssign", [d |-> s, s |-> s]))
  \/ (On("MoveAssign") /\ \E s \in Slots : SelfMoveAssign(s) /\ Rec("MoveAssign", [d |-> s, s |-> s]))
  \/ (On("Dump") /\ \E s \in Slots : Dump(s) /\ RecDump(s))
  \/ (On("Load") /\ \E s \in Slots : Load(s) /\ Rec("Load", [d |-> s]))
  \/ (On("Destroy") /\ \E s \in Slots : Destroy(s) /\ Rec("Destroy", [s |-> s]))
  \/ (On("Convert") /\ \E d \in Slots, s \in Slots, ty \in Types : Convert(d, s, ty) /\ Rec("Convert", [d |-> d, s |-> s, ty |-> ty]))
  \/ (On("ConvertMove") /\ \E d \in Slots, s \in Slots, ty \in Types : ConvertMove(d, s, ty) /\ Rec("ConvertMove", [d |-> d, s |-> s, ty |-> ty]))
  \/ (On("DefaultConstruct") /\ \E s \in ConstructSlots, ty \in Types : \E e \in ExtChoices :
        DefaultConstruct(s, ty, Len(e)) /\ Rec("DefaultConstruct", [s |-> s, ty |-> ty, n |-> Len(e)]))
  \/ (On("Adopt") /\ \E d \in Slots, s \in Slots, how \in {"const", "lvalue", "rvalue"} : Adopt(d, s, how) /\ Rec("Adopt", [d |-> d, s |-> s, how |-> how]))
  \/ (\E v \in ViewIds, s \in Slots : MakeView(v, s) /\ Rec("MakeView", [view |-> v, s |-> s]))
  \/ (\E v \in ViewIds : DropView(v) /\ Rec("DropView", [view |-> v]))
  \/ (\E v \in ViewIds : view[v].st = "valid" /\ \E c \in Box(view[v].ext), val \in Vals \ {0} :
        WriteView(v, c, val) /\ Rec("WriteView", [view |-> v, c |-> c, val |-> val]))
GSpec == GInit /\ [][GNext]_gvars

EmitHist == (EmitAll \/ ops' = MaxOps) =>
   Serialize(ToJson(hist') \o "\n", IOEnv.VF_OUT,
             [format |-> "TXT", charset |-> "UTF-8", openOptions |-> <<"WRITE", "CREATE", "APPEND">>]).exitValue = 0
=============================================================================
