SPECIFICATION TSpec
CONSTANTS
  NVal = 1
  Seed = 1
POSTCONDITION Accepted
CHECK_DEADLOCK FALSE
