SPECIFICATION Spec
CONSTANTS
  Entries <- EntQ
  VecEntries <- VecQ
  NSample <- SampleT
  Seed = 1
INVARIANTS FunctionLaw ComposeLaw ChainLaw FactoryLaw
POSTCONDITION EmitCases
CHECK_DEADLOCK FALSE
