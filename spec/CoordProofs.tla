----------------------------- MODULE CoordProofs -----------------------------
(* Machine-checked (TLAPS) unbounded versions of the per-axis laws that the   *)
(* rank-space model checking of C04 / C10 / C11 relies on: they hold for ALL   *)
(* integers, not only for the ranks TLC enumerates.                            *)
EXTENDS Coord, TLAPS

THEOREM ClampInBox ==
  \A x, lo, hi \in Int : lo <= hi => /\ lo <= ClampC(x, lo, hi) /\ ClampC(x, lo, hi) <= hi
                                     /\ ClampC(ClampC(x, lo, hi), lo, hi) = ClampC(x, lo, hi)
                                     /\ (lo <= x /\ x <= hi => ClampC(x, lo, hi) = x)
  BY DEF ClampC

THEOREM ClampIsMedian ==
  \A x, lo, hi \in Int : lo <= hi => ClampC(x, lo, hi) = Median(x, lo, hi)
  BY DEF ClampC, Median, Min3, Max3

THEOREM NearestWithinHalf ==
  \A k \in Int, pos \in NNPositions, p \in Int :
     p \in NNAllowed(k, Rel(pos)) <=> (Abs((16 * k + pos) - 16 * p) <= 8)
  BY DEF NNPositions, NNAllowed, Rel, Abs
=============================================================================
