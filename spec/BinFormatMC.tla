----------------------------- MODULE BinFormatMC -----------------------------
(***************************************************************************)
(* E1 for C06 / C07 and the case generator for the IO harness: one TLC      *)
(* state per catalogue instance (round trip, grammar) or per (instance,     *)
(* reading type) pair (portability).  The catalogue is in BinCatalogue.     *)
(***************************************************************************)
EXTENDS BinCatalogue

VARIABLE kase
Init == \/ \E iv \in Instances : kase = [kind |-> "roundtrip", tid |-> iv[1], v |-> iv[2]]
        \/ \E iv \in Instances, t2 \in 1..NTypes : kase = [kind |-> "cross", tid |-> iv[1], v |-> iv[2], t2 |-> t2]
Next == UNCHANGED kase
Spec == Init /\ [][Next]_kase

X == Inst(kase.tid, kase.v)

\* C06: loading a dump into the same type reproduces the field, and re-dumping reproduces the bytes
RoundTripLaw == kase.kind = "roundtrip" =>
   LET p == Parse(TypeOf(X), Ser(X)) IN
     /\ p.ok /\ p.rest = <<>>
     /\ p.layers = X
     /\ Ser(p.layers) = Ser(X)
\* the stream follows the nested header / payload / footer grammar: it starts with the global header, ends with
\* the global footer, and headers and footers nest like brackets
RECURSIVE Balanced(_, _)
Balanced(s, stack) ==
  IF s = <<>> THEN stack = <<>>
  ELSE IF Len(s) >= 4 /\ Take(s, 2) = MagicH THEN Balanced(Drop(s, 4), <<SubSeq(s, 3, 4)>> \o stack)
  ELSE IF Len(s) >= 4 /\ Take(s, 2) = MagicF
       THEN stack # <<>> /\ SubSeq(s, 3, 4) = FooterTag(Head(stack)) /\ Balanced(Drop(s, 4), Tail(stack))
  ELSE Balanced(Tail(s), stack)
GrammarLaw == kase.kind = "roundtrip" => Balanced(Ser(X), <<>>)

\* C07: a file loads into exactly the types with the same on-disk shape, with configurations kept and values
\* widened exactly / narrowed to nearest (cross-width only on the finite value sets)
FiniteSet == kase.v % 2 = 0
CompatLaw == kase.kind = "cross" =>
   LET T2 == TypeCat[kase.t2]  p == Parse(T2, Ser(X)) IN
     /\ (p.ok <=> CompatInst(X, T2))
     /\ (Compat(TypeOf(X), T2) => p.ok)
     /\ (p.ok /\ (FiniteSet \/ TypeOf(X) = T2) => p.layers = Retype(X, T2))
\* widening then narrowing a float file is the identity on bytes
WidenBackLaw == (kase.kind = "cross" /\ Compat(TypeOf(X), TypeCat[kase.t2])) =>
   LET T2 == TypeCat[kase.t2] IN
   (\A i \in 1..Len(X) : X[i].k = "array" => X[i].w = 2) /\ FiniteSet =>
        Ser(Retype(Retype(X, T2), TypeOf(X))) = Ser(X)

\* ---- emission for the IO harness
EmitCases == TLCGet("stats").generated >= 0 /\
  ndJsonSerialize(IOEnv.VF_OUT,
     SetToSeq({[kind |-> "instance", tid |-> iv[1], v |-> iv[2], layers |-> Inst(iv[1], iv[2]), stream |-> Ser(Inst(iv[1], iv[2]))]
               : iv \in Instances})
     \o SetToSeq({[kind |-> "cross", tid |-> c[1][1], v |-> c[1][2], t2 |-> c[2],
                   ok |-> CompatInst(Inst(c[1][1], c[1][2]), TypeCat[c[2]]),
                   layers |-> IF Compat(TypeCat[c[1][1]], TypeCat[c[2]]) /\ (c[1][2] % 2 = 0 \/ c[1][1] = c[2])
                              THEN Retype(Inst(c[1][1], c[1][2]), TypeCat[c[2]]) ELSE <<>>,
                   exact |-> c[1][2] % 2 = 0 \/ c[1][1] = c[2]]
                  : c \in Instances \X (1..NTypes)}))
=============================================================================
