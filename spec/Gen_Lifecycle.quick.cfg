SPECIFICATION GSpec
CONSTANTS
  Slots <- Slots2
  Types <- TypesA
  ExtChoices <- Ext2
  Vals = {0, 1}
  MaxOps = 4
  AssignImpl = "fixed"
  WM = 8
  ConstructSlots <- Slots2
  Unbounded = FALSE
  Canon = FALSE
  LinK = 0
  ViewIds <- NoViews
  Ops <- AllOps
  EmitAll = TRUE
VIEW View
ACTION_CONSTRAINT EmitHist
INVARIANTS TypeOK Refines NoAlias NoUseAfterFree NoDoubleFree NoLeak ConfigKept RoundTrip
CHECK_DEADLOCK FALSE
