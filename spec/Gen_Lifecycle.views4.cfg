SPECIFICATION GSpec
CONSTANTS
  Slots <- Slots2
  Types <- TypesB
  ExtChoices <- Ext2
  Vals = {0, 1}
  MaxOps = 5
  AssignImpl = "fixed"
  WM = 8
  ConstructSlots <- Slots2
  Unbounded = FALSE
  Canon = FALSE
  LinK = 0
  ViewIds <- Views1
  Ops <- ViewOps
  EmitAll = TRUE
VIEW View
ACTION_CONSTRAINT EmitHist
INVARIANTS TypeOK Refines NoAlias NoUseAfterFree NoDoubleFree NoLeak ConfigKept RoundTrip ViewsValid ViewsSeeOwner
CHECK_DEADLOCK FALSE
