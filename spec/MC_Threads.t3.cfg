SPECIFICATION Spec
CONSTANTS
  NThreads = 3
  LayoutsUsed <- LayoutsAll
  Interps <- InterpsAll
  ExtT <- ExtB
  WM = 8
  MaxWriters = 1
INVARIANTS RaceFree InBounds Deterministic
PROPERTIES Terminates
CHECK_DEADLOCK FALSE
