---------------------------- MODULE Trace_Layout ----------------------------
(* Trace validation of index computations recorded from the real layers     *)
(* (identity-backed, so the looked-up value IS the flat position) on inputs *)
(* beyond the exhaustively enumerated bound: row-major with large extents,  *)
(* Morton with coordinates up to 2^floor(64/N) (as 64-element LSB-first     *)
(* bit sequences), Hilbert with k <= 10, and the storage-size law.          *)
EXTENDS Layout, TLC, Json, IOUtils

Lm == INSTANCE Limbs

Log == ndJsonDeserialize(IOEnv.VF_TRACE)

VARIABLES l
tvars == <<l>>
TInit == l = 1
IsEvent(e) == l <= Len(Log) /\ Log[l].e = e /\ l' = l + 1

\* {e:"row", ext, c, idx}
TRow == /\ IsEvent("row")
        /\ Log[l].idx = RowMajorRef(Log[l].ext, Log[l].c)
        /\ Log[l].idx < Prod(Log[l].ext)

\* {e:"rowbig", ext:[8 limbs each], c:[8 limbs each], idx:[8 limbs]} : row-major with extents whose product exceeds 2^32 (up to
\* 2^63), everything as 8-bit limbs; position = Horner form, computed with limb arithmetic
RECURSIVE HornerL(_, _, _, _)
HornerL(ext, c, k, acc) == IF k > Len(ext) THEN acc ELSE HornerL(ext, c, k + 1, Lm!Add(Lm!Mul(acc, ext[k]), c[k]))
TRowBig == /\ IsEvent("rowbig")
           /\ \A k \in 1..Len(Log[l].ext) : Lm!IsLimbs(Log[l].ext[k], 8) /\ Lm!IsLimbs(Log[l].c[k], 8) /\ Lm!Less(Log[l].c[k], Log[l].ext[k])
           /\ Log[l].idx = HornerL(Log[l].ext, Log[l].c, 1, Lm!Zero(8))

\* {e:"mortonbits", n, c:[[64 bits]...], idx:[64 bits]} : pure interleave on bit sequences
TMortonBits ==
  /\ IsEvent("mortonbits")
  /\ LET n == Log[l].n  c == Log[l].c  x == Log[l].idx  top == 64 \div n IN
       /\ Len(c) = n /\ Len(x) = 64
       /\ \A q \in 0..(n * top - 1) : x[q + 1] = c[(q % n) + 1][(q \div n) + 1]
       /\ \A q \in (n * top)..63 : x[q + 1] = 0

\* {e:"morton", ext, c, idx, size} : small coordinates, with the allocation law
TMorton == /\ IsEvent("morton")
           /\ Log[l].idx = MortonBits(Log[l].c, 30)
           /\ Log[l].size = StorageSize("morton", Log[l].ext)
           /\ Log[l].idx < Log[l].size

\* {e:"hilbert", ext, c, d, size}
THilbert == /\ IsEvent("hilbert")
            /\ Log[l].d = HilbertLoop(Log[l].ext, Log[l].c)
            /\ Log[l].size = StorageSize("hilbert", Log[l].ext)
            /\ Log[l].d < Log[l].size

\* {e:"hwalk", k, d, c0, c1} : the implementation maps c0 to d and c1 to d+1
THWalk == /\ IsEvent("hwalk")
          /\ LET n == 2 ^ Log[l].k  sq == <<n, n>> IN
               /\ HilbertLoop(sq, Log[l].c0) = Log[l].d
               /\ HilbertLoop(sq, Log[l].c1) = Log[l].d + 1
               /\ D2XY(n, Log[l].d) = Log[l].c0
               /\ Adjacent(Log[l].c0, Log[l].c1)

\* {e:"hcount", k, distinct, min, max, origin} : the implementation's image of the whole 2^k square
THCount == /\ IsEvent("hcount")
           /\ Log[l].distinct = 4 ^ Log[l].k
           /\ Log[l].min = 0 /\ Log[l].max = 4 ^ Log[l].k - 1
           /\ Log[l].origin = 0

TNext == TRow \/ TRowBig \/ TMortonBits \/ TMorton \/ THilbert \/ THWalk \/ THCount
TSpec == TInit /\ [][TNext]_tvars

Accepted == IF TLCGet("stats").diameter - 1 = Len(Log)
            THEN TRUE
            ELSE /\ PrintT(<<"TRACE-REJECTED matched-prefix", TLCGet("stats").diameter - 1, "of", Len(Log)>>)
                 /\ FALSE
=============================================================================
