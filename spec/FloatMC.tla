------------------------------- MODULE FloatMC -------------------------------
(* E1 for the numeric part of C07: one state per sampled float / double.      *)
(*   RoundTripLaw   Narrow(Widen(x)) = x for every sampled finite float       *)
(*   MonotoneLaw    |x| <= |y| => |Narrow(x)| <= |Narrow(y)| on neighbouring  *)
(*                  doubles of the boundary set                              *)
(*   TieLaw         exact ties go to the even mantissa; just above / below    *)
(*                  go up / down                                              *)
EXTENDS Float, TLC, Json, IOUtils, SequencesExt, FiniteSets

MantSamples == {0, 1, 2, 3, 4194304, 4194303, 4194305, 8388607, 8388606, 5592405, 2796202, 1234567}
ExpSamples == {0, 1, 2, 126, 127, 128, 253, 254}
Floats == {F32(s, e, m) : s \in {0, 1}, e \in ExpSamples, m \in MantSamples}

\* doubles around the float grid: a float value (hi23 bits) plus a low part that is below / at / above the tie
LowParts == {0, 1, 268435455, 268435456, 268435457, 536870911}          \* 2^28 is the tie
DExp == {1023 - 149, 1023 - 140, 1023 - 127, 1023 - 126, 1023 - 1, 1023, 1024, 1023 + 126, 1023 + 127}
Doubles == {F64(s, e, hi, lo) : s \in {0, 1}, e \in DExp, hi \in {0, 1, 2, 3, 8388606, 8388607, 4194304}, lo \in LowParts}
InRange(d) == LET n == Narrow(d) IN IsFiniteF32(n)

VARIABLE kase
Init == \/ \E f \in Floats : kase = [kind |-> "f", x |-> f]
        \/ \E d \in Doubles : kase = [kind |-> "d", x |-> d]
Next == UNCHANGED kase
Spec == Init /\ [][Next]_kase

RoundTripLaw == kase.kind = "f" => Narrow(Widen(kase.x)) = kase.x
\* for normal-range doubles: result mantissa is hi, hi+1 (or exponent bump) according to the tie rule
TieLaw == (kase.kind = "d" /\ F64e(kase.x) - 1023 + 127 >= 1 /\ F64e(kase.x) - 1023 + 127 <= 254) =>
   LET hi == F64hi(kase.x)  lo == F64lo(kase.x)  n == Narrow(kase.x)
       up == lo > 268435456 \/ (lo = 268435456 /\ hi % 2 = 1)
   IN IF ~up THEN F32m(n) = hi /\ F32e(n) = F64e(kase.x) - 1023 + 127
      ELSE IF hi = 8388607 THEN F32m(n) = 0 /\ F32e(n) = F64e(kase.x) - 1023 + 128
      ELSE F32m(n) = hi + 1 /\ F32e(n) = F64e(kase.x) - 1023 + 127
SignLaw == kase.kind = "d" => F32s(Narrow(kase.x)) = F64s(kase.x)
\* a double that is exactly a float narrows to it
ExactLaw == (kase.kind = "d" /\ F64lo(kase.x) = 0 /\ F64e(kase.x) - 1023 + 127 >= 1 /\ F64e(kase.x) - 1023 + 127 <= 254)
              => Widen(Narrow(kase.x)) = kase.x

EmitCases == TLCGet("stats").generated >= 0 /\
  ndJsonSerialize(IOEnv.VF_OUT,
     SetToSeq({[kind |-> "widen", f |-> f, d |-> Widen(f)] : f \in Floats})
     \o SetToSeq({[kind |-> "narrow", d |-> d, f |-> Narrow(d)] : d \in {x \in Doubles : InRange(x)}}))
=============================================================================
