------------------------------- MODULE Limbs -------------------------------
(* Arithmetic on wide unsigned words represented as LSB-first sequences of  *)
(* 8-bit limbs, so that 32- and 64-bit values of the implementation can be  *)
(* judged by TLC, whose integers have 32 bits.                              *)
EXTENDS Naturals, Sequences, SequencesExt, FiniteSetsExt, Functions

IsLimbs(a, n) == Len(a) = n /\ \A k \in 1..n : a[k] \in 0..255

Zero(n) == [k \in 1..n |-> 0]
One(n) == [k \in 1..n |-> IF k = 1 THEN 1 ELSE 0]
FromNat(v, n) == [k \in 1..n |-> (v \div (256 ^ (k - 1))) % 256]   \* v < 2^31, n <= 3 limbs significant beyond that use shifts

\* column sums of the schoolbook product, truncated to n limbs
Col(a, b, k) == FoldFunction(LAMBDA x, y : x + y, 0, [i \in 1..k |-> a[i] * b[k + 1 - i]])

RECURSIVE Carry(_, _, _, _, _)
Carry(a, b, n, k, c) ==   \* limbs k..n of a*b given the carry c into limb k
  IF k > n THEN <<>>
  ELSE LET t == Col(a, b, k) + c IN <<t % 256>> \o Carry(a, b, n, k + 1, t \div 256)

Mul(a, b) == Carry(a, b, Len(a), 1, 0)        \* (a * b) mod 256^n

\* (a + b) mod 256^n
RECURSIVE AddFrom(_, _, _, _)
AddFrom(a, b, k, c) == IF k > Len(a) THEN <<>> ELSE LET t == a[k] + b[k] + c IN <<t % 256>> \o AddFrom(a, b, k + 1, t \div 256)
Add(a, b) == AddFrom(a, b, 1, 0)

\* a^p mod 256^n by p successive multiplications
Pow(a, p) == FoldLeft(LAMBDA acc, k : Mul(acc, a), One(Len(a)), [k \in 1..p |-> k])

\* comparison, most significant limb first
RECURSIVE LessFrom(_, _, _)
LessFrom(a, b, k) == IF k = 0 THEN FALSE
                     ELSE IF a[k] # b[k] THEN a[k] < b[k] ELSE LessFrom(a, b, k - 1)
Less(a, b) == LessFrom(a, b, Len(a))
Leq(a, b) == a = b \/ Less(a, b)

\* 2^e as limbs (e < 8n)
Pow2(e, n) == [k \in 1..n |-> IF k = (e \div 8) + 1 THEN 2 ^ (e % 8) ELSE 0]
\* value 2^e + off, off in {-1, 0, 1}, e >= 1
Pow2Off(e, off, n) ==
  IF off = 0 THEN Pow2(e, n)
  ELSE IF off = 1 THEN [Pow2(e, n) EXCEPT ![1] = IF e = 0 THEN 2 ELSE @ + 1]
  ELSE \* 2^e - 1: e low bits set
       [k \in 1..n |-> IF k <= e \div 8 THEN 255 ELSE IF k = (e \div 8) + 1 THEN 2 ^ (e % 8) - 1 ELSE 0]

IsPow2Limbs(a) == \E e \in 0..(8 * Len(a) - 1) : a = Pow2(e, Len(a))
Log2(a) == CHOOSE e \in 0..(8 * Len(a) - 1) : a = Pow2(e, Len(a))
=============================================================================
