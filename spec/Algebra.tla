------------------------------- MODULE Algebra -------------------------------
(***************************************************************************)
(* covfie::algebra (vector.hpp, matrix.hpp, affine.hpp) over the integers:  *)
(* on small-integer operands every floating-point operation of the library  *)
(* is exact, so implementation and specification must agree exactly.        *)
(*   Apply    - affine.hpp:30-41: append 1, multiply by the N x (N+1) matrix *)
(*   Compose  - affine.hpp:43-74: embed both factors in (N+1)x(N+1)          *)
(*              matrices with last row (0,...,0,1), multiply, keep N rows   *)
(*   Translation / Scaling / Identity - affine.hpp:76-124                    *)
(* An affine transform is a function [1..N -> [1..N+1 -> Int]].             *)
(***************************************************************************)
EXTENDS Integers, Sequences, FiniteSets, FiniteSetsExt, Functions

Sum(f) == FoldFunction(LAMBDA a, b : a + b, 0, f)
Dim(A) == Len(A)

\* matrix (rows x cols as nested sequences) product, as matrix.hpp:46-62
MatMul(P, Q) == [i \in 1..Len(P) |-> [j \in 1..Len(Q[1]) |-> Sum([k \in 1..Len(Q) |-> P[i][k] * Q[k][j]])]]

\* affine * vector as coded: r = (v, 1); result = M * r
Apply(A, v) == LET N == Dim(A)  r == [k \in 1..(N + 1) |-> IF k <= N THEN v[k] ELSE 1]
               IN [i \in 1..N |-> Sum([k \in 1..(N + 1) |-> A[i][k] * r[k]])]

\* affine * affine as coded
Embed(A) == LET N == Dim(A) IN [i \in 1..(N + 1) |-> IF i <= N THEN A[i] ELSE [j \in 1..(N + 1) |-> IF j = N + 1 THEN 1 ELSE 0]]
Compose(A, B) == LET N == Dim(A)  R == MatMul(Embed(A), Embed(B)) IN [i \in 1..N |-> R[i]]

\* textbook composition: linear parts multiply, translation is A_lin * b + a
ComposeRef(A, B) == LET N == Dim(A) IN
  [i \in 1..N |-> [j \in 1..(N + 1) |->
      IF j <= N THEN Sum([k \in 1..N |-> A[i][k] * B[k][j]])
      ELSE Sum([k \in 1..N |-> A[i][k] * B[k][N + 1]]) + A[i][N + 1]]]

Identity(N) == [i \in 1..N |-> [j \in 1..(N + 1) |-> IF i = j THEN 1 ELSE 0]]
Translation(t) == LET N == Len(t) IN [i \in 1..N |-> [j \in 1..(N + 1) |-> IF j = N + 1 THEN t[i] ELSE IF i = j THEN 1 ELSE 0]]
Scaling(s) == LET N == Len(s) IN [i \in 1..N |-> [j \in 1..(N + 1) |-> IF i = j THEN s[i] ELSE 0]]
=============================================================================
