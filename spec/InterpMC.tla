------------------------------- MODULE InterpMC -------------------------------
(***************************************************************************)
(* E1 for C03, one TLC state per query (N, extents, cell i, fractions f):   *)
(*   InterpolantLaw  Linear-as-coded = textbook tensor-product interpolant  *)
(*   LatticeLaw      f = 0 everywhere returns the stored value              *)
(*   RangeLaw        result within [min, max] of the surrounding values     *)
(*   CornerLaw       the cells read are exactly the 2^N cell vertices        *)
(* The field is a fixed non-affine integer function of the coordinate, so   *)
(* that a wrong corner or weight changes the result.                        *)
(***************************************************************************)
EXTENDS Interp, TLC, Json, IOUtils, SequencesExt

CONSTANTS D,          \* denominator of the fractions (power of two)
          Exts,       \* function N |-> set of extents per axis
          MaxNExh,    \* N in 1..MaxNExh: all queries; above: sampled
          MaxN, M

ExtQ == <<{2, 3}, {2, 3}, {2, 3}, {2}, {2}>>
ExtT == <<{2, 3, 4}, {2, 3, 4}, {2, 3}, {2, 3}, {2}>>

\* the stored field: non-affine, distinct per component q (1..M), |value| < 2^10
Val(c, q) == LET s == Sum([k \in 1..Len(c) |-> (k + 1) * c[k]]) IN (s * s) - (3 * s) + (7 * q) - (11 * c[1] * c[Len(c)])

ExtVecs(N) == [1..N -> Exts[N]]
Cells(e) == {c \in [1..Len(e) -> 0..(Max({e[k] : k \in 1..Len(e)}) - 1)] : \A k \in 1..Len(e) : c[k] < e[k]}
Queries(N, e) == {<<i, f>> \in [1..N -> 0..2] \X [1..N -> 0..(D - 1)] : \A k \in 1..N : i[k] <= e[k] - 2}
\* N > MaxNExh: fractions restricted to {0, 1, D-1} and a rotating choice
SampledQueries(N, e) == {<<i, f>> \in [1..N -> 0..1] \X [1..N -> {0, 1, D - 1}] :
                           /\ \A k \in 1..N : i[k] <= e[k] - 2
                           /\ Cardinality({k \in 1..N : f[k] = 0}) # 1}

VARIABLE kase
Init == \E N \in 1..MaxN : \E e \in ExtVecs(N) :
          \E qf \in (IF N <= MaxNExh THEN Queries(N, e) ELSE SampledQueries(N, e)) :
             kase = [n |-> N, ext |-> e, i |-> qf[1], f |-> qf[2]]
Next == UNCHANGED kase
Spec == Init /\ [][Next]_kase

V(q) == [c \in Cells(kase.ext) |-> Val(c, q)]
Num(q) == Linear(kase.n, V(q), kase.i, kase.f, D)
Around(q) == {V(q)[c] : c \in CellVertices(kase.n, kase.i)}

InterpolantLaw == \A q \in 1..M : Num(q) = Tensor(kase.n, V(q), kase.i, kase.f, D, <<>>)
LatticeLaw == (\A k \in 1..kase.n : kase.f[k] = 0) => \A q \in 1..M : Num(q) = (D ^ kase.n) * V(q)[kase.i]
RangeLaw == \A q \in 1..M : /\ Num(q) >= (D ^ kase.n) * Min(Around(q))
                            /\ Num(q) <= (D ^ kase.n) * Max(Around(q))
CornerLaw == /\ Footprint(kase.n, kase.i) = CellVertices(kase.n, kase.i)
             /\ Footprint(kase.n, kase.i) \subseteq Cells(kase.ext)
WeightsSumLaw == Sum([n \in 0..(2 ^ kase.n - 1) |-> Weight(kase.n, n, kase.f, D)]) = D ^ kase.n

\* emission: one line per (N, extents) with the whole stored field and every query's numerators
GridCase(N, e) ==
  LET cs == SetToSeq(Cells(e))
      qs == SetToSeq(IF N <= MaxNExh THEN Queries(N, e) ELSE SampledQueries(N, e)) IN
  [kind |-> "grid", n |-> N, m |-> M, ext |-> e, D |-> D,
   cells |-> [j \in 1..Len(cs) |-> [c |-> cs[j], v |-> [q \in 1..M |-> Val(cs[j], q)]]],
   queries |-> [j \in 1..Len(qs) |->
        [i |-> qs[j][1], f |-> qs[j][2],
         num |-> [q \in 1..M |-> Linear(N, [c \in Cells(e) |-> Val(c, q)], qs[j][1], qs[j][2], D)],
         reads |-> SetToSeq(Footprint(N, qs[j][1]))]]]
\* clamp beneath the interpolator: any x_k >= 0 is in the domain; the field seen by the interpolator is v o clamp
ClampIdx(c, e) == [k \in 1..Len(c) |-> IF c[k] > e[k] - 1 THEN e[k] - 1 ELSE c[k]]
CQueries(N, e) == {<<i, f>> \in [1..N -> 0..4] \X [1..N -> {0, 1, D - 1}] : \A k \in 1..N : i[k] <= e[k] + 1}
ClampCase(N, e) ==
  LET qs == SetToSeq(CQueries(N, e))
      ext2 == [k \in 1..N |-> e[k] + 3]
      VC(q) == [c \in Cells(ext2) |-> Val(ClampIdx(c, e), q)] IN
  [kind |-> "clamp", n |-> N, m |-> M, ext |-> e, D |-> D,
   queries |-> [j \in 1..Len(qs) |-> [i |-> qs[j][1], f |-> qs[j][2],
                                       num |-> [q \in 1..M |-> Linear(N, VC(q), qs[j][1], qs[j][2], D)]]]]

\* precision probes: one axis carries the fraction 1/2^L or 1 - 1/2^L, the two cells along it hold v0 and v1
ProbeCase(N, a, L, f, v0, v1) == [kind |-> "probe", n |-> N, axis |-> a, logD |-> L, f |-> f, v0 |-> v0, v1 |-> v1,
                                   num |-> f * v1 + (2 ^ L - f) * v0]
Probes == {ProbeCase(N, a, L, 1, 0, 2 ^ L) : N \in 1..MaxN, a \in 1..MaxN, L \in {20, 30}}
          \cup {ProbeCase(N, a, L, 2 ^ L - 1, 0, 1) : N \in 1..MaxN, a \in 1..MaxN, L \in {20, 30}}
          \cup {ProbeCase(N, a, L, 1, 0, 1) : N \in 1..MaxN, a \in 1..MaxN, L \in {20, 30}}
          \cup {ProbeCase(N, a, L, 1, 1, 0) : N \in 1..MaxN, a \in 1..MaxN, L \in {20, 30}}

\* huge magnitudes: interpolation is homogeneous, so the numerators computed on small integers v0, v1 are scaled by 2^E in
\* the harness (E chosen so that |v1 - v0| * 2^E exceeds the largest finite value of the type while v0, v1 * 2^E are finite):
\* "arbitrary finite stored values" must not produce infinities or NaNs, and lattice points stay exact
ScaledCase(N, a, f, v0, v1) == [kind |-> "scaled", n |-> N, axis |-> a, f |-> f, v0 |-> v0, v1 |-> v1, num |-> f * v1 + (D - f) * v0, D |-> D]
Scaled == {ScaledCase(N, a, f, v0, v1) : N \in 1..MaxN, a \in 1..MaxN, f \in 0..(D - 1), v0 \in {1, -1}, v1 \in {1, -1}}

EmitCases == TLCGet("stats").generated >= 0 /\
  ndJsonSerialize(IOEnv.VF_OUT, SetToSeq(UNION {{GridCase(N, e) : e \in ExtVecs(N)} : N \in 1..MaxN})) /\
  ndJsonSerialize(IOEnv.VF_OUT2, SetToSeq(UNION {{ClampCase(N, e) : e \in ExtVecs(N)} : N \in 1..2})
                                 \o SetToSeq({pc \in Probes : pc.axis <= pc.n})
                                 \o SetToSeq({sc \in Scaled : sc.axis <= sc.n}))
=============================================================================
