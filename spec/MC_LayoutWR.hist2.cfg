SPECIFICATION Spec
CONSTANTS
  Dims <- DimsAll
  ExtB <- T2
  LayoutsUsed <- Layouts
  MaxWrites = 2
  WM = 16
INVARIANTS Refines InStorage SizeLaw Injective
CHECK_DEADLOCK FALSE
