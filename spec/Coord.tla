-------------------------------- MODULE Coord --------------------------------
(***************************************************************************)
(* Coordinate maps that depend only on comparisons, in rank space:          *)
(*   nearest_neighbour.hpp:132-145  per-component round-to-nearest          *)
(*   clamp.hpp:146-162              component-wise std::clamp                *)
(*   backup.hpp:174-185             closed-box test returning the default    *)
(* A coordinate component is an integer RANK; the harness concretises       *)
(* ranks to int / unsigned / size_t / float / double values (extremes of    *)
(* the type, +-inf, one ulp either side of a half-integer).  Because these  *)
(* layers only compare, an order-preserving concretisation is exact.        *)
(***************************************************************************)
EXTENDS Integers, Sequences, FiniteSets, TLC

\* ---------------------------------------------------------------- nearest neighbour
\* x = k + Pos/16 with Pos in {0,1,4,7,8,9,12,15}: 1 and 15 stand for "one ulp above k / below k+1",
\* 7 and 9 for "one ulp below / above the half-integer", 4 and 12 for generic points.
NNPositions == {0, 1, 4, 7, 8, 9, 12, 15}
Rel(pos) == IF pos = 0 THEN "int" ELSE IF pos < 8 THEN "below" ELSE IF pos = 8 THEN "half" ELSE "above"

\* the rule the layer must follow (any tie-break at an exact half is admissible)
NNAllowed(k, rel) == CASE rel = "int" -> {k}
                       [] rel = "below" -> {k}
                       [] rel = "half" -> {k, k + 1}
                       [] rel = "above" -> {k + 1}

\* the property's own wording: lattice points within one half of the coordinate (distances scaled by 16)
Abs(a) == IF a >= 0 THEN a ELSE -a
WithinHalf(k, pos) == {p \in (k - 2)..(k + 3) : Abs((16 * k + pos) - 16 * p) <= 8}

\* ---------------------------------------------------------------- clamp / backup
ClampC(x, lo, hi) == IF x < lo THEN lo ELSE IF hi < x THEN hi ELSE x     \* std::clamp(v, lo, hi)
Clamp(x, lo, hi) == [i \in 1..Len(x) |-> ClampC(x[i], lo[i], hi[i])]
InBox(x, lo, hi) == \A i \in 1..Len(x) : lo[i] <= x[i] /\ x[i] <= hi[i]
Min3(a, b, c) == IF a <= b /\ a <= c THEN a ELSE IF b <= c THEN b ELSE c
Max3(a, b, c) == IF a >= b /\ a >= c THEN a ELSE IF b >= c THEN b ELSE c
Median(a, b, c) == a + b + c - Min3(a, b, c) - Max3(a, b, c)
=============================================================================
