SPECIFICATION RSpec
CONSTANTS
  NVal = 2
  Seed = 1
  ReadImpl = "fixed"
  FaultKinds <- AllFaults
  WithLarge = FALSE
  TypeIds <- AllTypes
INVARIANTS NeverReturnsOnFault AgreesWithParse RejectAgreesWithParse
PROPERTIES RejectsFault AcceptsIntact Terminates
POSTCONDITION EmitFaults
CHECK_DEADLOCK FALSE
