---------------------------- MODULE LayoutProofs ----------------------------
(* Machine-checked (TLAPS) unbounded lemmas behind the row-major layout      *)
(* (strided.hpp:232-262).  The position of a coordinate is built by Horner   *)
(* steps  p |-> p * s + c ; the two lemmas below say that ONE step keeps     *)
(* positions inside the allocated size and is injective, for EVERY extent -  *)
(* so by induction on the number of dimensions the row-major map is a        *)
(* bijection onto 0..Prod(s)-1 for all N and all extents, not only those TLC *)
(* enumerates (MC_Layout).  The closed forms for N = 2, 3 are stated         *)
(* explicitly as corollaries.                                                *)
EXTENDS Integers, TLAPS

Step(p, s, c) == p * s + c

LEMMA MulMono == \A a, b, s \in Nat : a <= b => a * s <= b * s
  OBVIOUS

LEMMA MulSucc == \A a, s \in Nat : (a + 1) * s = a * s + s
  OBVIOUS

LEMMA Lin == \A a, b, s, c, d \in Nat : (c < s /\ a + s <= b /\ a + c = b + d) => FALSE
  OBVIOUS

THEOREM StepBounded ==
  \A P, s \in Nat, p \in Nat, c \in Nat : p < P /\ c < s => Step(p, s, c) < P * s
  <1> SUFFICES ASSUME NEW P \in Nat, NEW s \in Nat, NEW p \in Nat, NEW c \in Nat, p < P, c < s
               PROVE p * s + c < P * s
      BY DEF Step
  <1>1. p + 1 <= P  OBVIOUS
  <1>2. (p + 1) * s <= P * s  BY <1>1
  <1>3. (p + 1) * s = p * s + s  OBVIOUS
  <1> QED BY <1>2, <1>3

THEOREM StepInjective ==
  \A s \in Nat, p, q \in Nat, c, d \in Nat :
     c < s /\ d < s /\ Step(p, s, c) = Step(q, s, d) => p = q /\ c = d
  <1> SUFFICES ASSUME NEW s \in Nat, NEW p \in Nat, NEW q \in Nat, NEW c \in Nat, NEW d \in Nat,
                      c < s, d < s, p * s + c = q * s + d
               PROVE p = q /\ c = d
      BY DEF Step
  <1> DEFINE ps == p * s
  <1> DEFINE qs == q * s
  <1>a. ps \in Nat /\ qs \in Nat  OBVIOUS
  <1>1. CASE p < q
    <2>0. p + 1 \in Nat /\ p + 1 <= q  BY <1>1
    <2>1. (p + 1) * s <= qs  BY <2>0, MulMono
    <2>2. (p + 1) * s = ps + s  BY MulSucc
    <2>3. ps + s <= qs  BY <2>1, <2>2
    <2>4. ps + c = qs + d  OBVIOUS
    <2> HIDE DEF ps, qs
    <2> QED BY <2>3, <2>4, <1>a, Lin
  <1>2. CASE q < p
    <2>0. q + 1 \in Nat /\ q + 1 <= p  BY <1>2
    <2>1. (q + 1) * s <= ps  BY <2>0, MulMono
    <2>2. (q + 1) * s = qs + s  BY MulSucc
    <2>3. qs + s <= ps  BY <2>1, <2>2
    <2>4. ps + c = qs + d  OBVIOUS
    <2> HIDE DEF ps, qs
    <2> QED BY <2>3, <2>4, <1>a, Lin
  <1>3. CASE p = q  BY <1>3
  <1> QED BY <1>1, <1>2, <1>3

RowMajor2(s1, s2, c1, c2) == Step(c1, s2, c2)
RowMajor3(s1, s2, s3, c1, c2, c3) == Step(Step(c1, s2, c2), s3, c3)

THEOREM RowMajor2Bijective ==
  \A s1, s2 \in Nat, c1, c2, d1, d2 \in Nat :
     c1 < s1 /\ c2 < s2 /\ d1 < s1 /\ d2 < s2 =>
       /\ RowMajor2(s1, s2, c1, c2) < s1 * s2
       /\ (RowMajor2(s1, s2, c1, c2) = RowMajor2(s1, s2, d1, d2) => c1 = d1 /\ c2 = d2)
  BY StepBounded, StepInjective DEF RowMajor2

THEOREM RowMajor3Bijective ==
  \A s1, s2, s3 \in Nat, c1, c2, c3, d1, d2, d3 \in Nat :
     c1 < s1 /\ c2 < s2 /\ c3 < s3 /\ d1 < s1 /\ d2 < s2 /\ d3 < s3 =>
       /\ RowMajor3(s1, s2, s3, c1, c2, c3) < (s1 * s2) * s3
       /\ (RowMajor3(s1, s2, s3, c1, c2, c3) = RowMajor3(s1, s2, s3, d1, d2, d3) => c1 = d1 /\ c2 = d2 /\ c3 = d3)
  <1> TAKE s1, s2, s3 \in Nat, c1, c2, c3, d1, d2, d3 \in Nat
  <1> HAVE c1 < s1 /\ c2 < s2 /\ c3 < s3 /\ d1 < s1 /\ d2 < s2 /\ d3 < s3
  <1>1. Step(c1, s2, c2) \in Nat /\ Step(d1, s2, d2) \in Nat  BY DEF Step
  <1>2. Step(c1, s2, c2) < s1 * s2 /\ Step(d1, s2, d2) < s1 * s2  BY StepBounded
  <1>3. s1 * s2 \in Nat  OBVIOUS
  <1>4. RowMajor3(s1, s2, s3, c1, c2, c3) < (s1 * s2) * s3  BY <1>1, <1>2, <1>3, StepBounded DEF RowMajor3
  <1>5. ASSUME RowMajor3(s1, s2, s3, c1, c2, c3) = RowMajor3(s1, s2, s3, d1, d2, d3) PROVE c1 = d1 /\ c2 = d2 /\ c3 = d3
    <2>1. Step(c1, s2, c2) = Step(d1, s2, d2) /\ c3 = d3  BY <1>1, <1>5, StepInjective DEF RowMajor3
    <2> QED BY <2>1, StepInjective
  <1> QED BY <1>4, <1>5

(* The space-filling curves are built from the same step.  One level of the  *)
(* Morton curve in N dimensions appends the digit  sum_j b_j * 2^(j-1)  in   *)
(* base 2^N to the position of the coordinates shifted right by one bit      *)
(* (morton.hpp:35-141), and one level of the Hilbert walk appends a base-4   *)
(* quadrant digit (hilbert.hpp:55-96); so a level is Step(m, 2^N, digit)     *)
(* with digit < 2^N, and the two lemmas above give: no two distinct          *)
(* (prefix, digit) pairs collide and the position stays below (side)^N.      *)
MortonLevel2(m, bx, by) == Step(m, 4, 2 * by + bx)
MortonLevel3(m, bx, by, bz) == Step(m, 8, 4 * bz + 2 * by + bx)

THEOREM MortonLevel2Bijective ==
  \A P \in Nat, m, n \in Nat, bx, by, cx, cy \in {0, 1} :
     m < P /\ n < P =>
       /\ MortonLevel2(m, bx, by) < P * 4
       /\ (MortonLevel2(m, bx, by) = MortonLevel2(n, cx, cy) => m = n /\ bx = cx /\ by = cy)
  <1> TAKE P \in Nat, m, n \in Nat, bx, by, cx, cy \in {0, 1}
  <1> HAVE m < P /\ n < P
  <1>1. 2 * by + bx \in Nat /\ 2 * by + bx < 4 /\ 2 * cy + cx \in Nat /\ 2 * cy + cx < 4  OBVIOUS
  <1>2. MortonLevel2(m, bx, by) < P * 4  BY <1>1, StepBounded DEF MortonLevel2
  <1>3. ASSUME MortonLevel2(m, bx, by) = MortonLevel2(n, cx, cy) PROVE m = n /\ bx = cx /\ by = cy
    <2>1. m = n /\ 2 * by + bx = 2 * cy + cx  BY <1>1, <1>3, StepInjective DEF MortonLevel2
    <2> QED BY <2>1
  <1> QED BY <1>2, <1>3

THEOREM MortonLevel3Bijective ==
  \A P \in Nat, m, n \in Nat, bx, by, bz, cx, cy, cz \in {0, 1} :
     m < P /\ n < P =>
       /\ MortonLevel3(m, bx, by, bz) < P * 8
       /\ (MortonLevel3(m, bx, by, bz) = MortonLevel3(n, cx, cy, cz) => m = n /\ bx = cx /\ by = cy /\ bz = cz)
  <1> TAKE P \in Nat, m, n \in Nat, bx, by, bz, cx, cy, cz \in {0, 1}
  <1> HAVE m < P /\ n < P
  <1>1. /\ 4 * bz + 2 * by + bx \in Nat /\ 4 * bz + 2 * by + bx < 8
        /\ 4 * cz + 2 * cy + cx \in Nat /\ 4 * cz + 2 * cy + cx < 8  OBVIOUS
  <1>2. MortonLevel3(m, bx, by, bz) < P * 8  BY <1>1, StepBounded DEF MortonLevel3
  <1>3. ASSUME MortonLevel3(m, bx, by, bz) = MortonLevel3(n, cx, cy, cz) PROVE m = n /\ bx = cx /\ by = cy /\ bz = cz
    <2>1. m = n /\ 4 * bz + 2 * by + bx = 4 * cz + 2 * cy + cx  BY <1>1, <1>3, StepInjective DEF MortonLevel3
    <2> QED BY <2>1
  <1> QED BY <1>2, <1>3

(* The Hilbert quadrant digit as coded:  d += s*s*((3*rx) ^ ry)  with rx, ry in {0,1}; (3*rx) XOR ry takes the four   *)
(* values 0 (0,0), 1 (0,1), 3 (1,0), 2 (1,1): a bijection {0,1}^2 -> 0..3.                                            *)
HilbertDigit(rx, ry) == IF rx = 0 THEN ry ELSE 3 - ry
THEOREM HilbertDigitBijective ==
  /\ \A rx, ry \in {0, 1} : HilbertDigit(rx, ry) \in 0..3
  /\ \A rx, ry, sx, sy \in {0, 1} : HilbertDigit(rx, ry) = HilbertDigit(sx, sy) => rx = sx /\ ry = sy
  BY DEF HilbertDigit
=============================================================================
