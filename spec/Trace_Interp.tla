---------------------------- MODULE Trace_Interp ----------------------------
(* Trace validation of linear interpolation on random grids, values and      *)
(* dyadic points beyond the enumerated ones: the harness logs the 2^N        *)
(* stored corner values it put into the field (corner b, bit k-1 of b = +1   *)
(* on axis k), the fractions and the numerator the real layer produced; TLC  *)
(* recomputes the N-linear interpolant from the corner values.               *)
EXTENDS Interp, TLC, Json, IOUtils

Log == ndJsonDeserialize(IOEnv.VF_TRACE)
VARIABLES l
tvars == <<l>>
TInit == l = 1
IsEvent(e) == l <= Len(Log) /\ Log[l].e = e /\ l' = l + 1

Expected(N, D, f, corners, q) ==
  Sum([b \in 0..(2 ^ N - 1) |-> Prd([k \in 1..N |-> IF Bit(b, k - 1) = 1 THEN f[k] ELSE D - f[k]]) * corners[b + 1][q]])

TLin == /\ IsEvent("lin")
        /\ Log[l].integral = TRUE
        /\ LET N == Log[l].n IN
             /\ Len(Log[l].corners) = 2 ^ N
             /\ \A q \in 1..Len(Log[l].num) : Log[l].num[q] = Expected(N, Log[l].D, Log[l].f, Log[l].corners, q)

TNext == TLin
TSpec == TInit /\ [][TNext]_tvars
Accepted == IF TLCGet("stats").diameter - 1 = Len(Log)
            THEN TRUE
            ELSE /\ PrintT(<<"TRACE-REJECTED matched-prefix", TLCGet("stats").diameter - 1, "of", Len(Log)>>)
                 /\ FALSE
=============================================================================
