SPECIFICATION Spec
CONSTANTS
  W = 12
  Prog = "round_pow2"
  RpInputs <- RpDomain
  IpBases <- None
  IpExps <- None
INVARIANTS TypeOK RP_Correct RP_LoopInv
PROPERTIES Terminates
POSTCONDITION EmitCases
CHECK_DEADLOCK FALSE
