------------------------------- MODULE Layout -------------------------------
(***************************************************************************)
(* Index maps of the storage-order layers, written the way the code        *)
(* computes them, next to the published definitions they must equal.       *)
(*   strided.hpp:232-262   RowMajor                                        *)
(*   morton.hpp:35-141     MortonLoop (portable shift/or loop),            *)
(*                         MortonPdep (mask construction + pdep)           *)
(*   hilbert.hpp:55-96     HilbertLoop (xy2d with quadrant rotation)       *)
(*   morton.hpp:151-163, hilbert.hpp:104-116   StorageSize                 *)
(* Coordinates and extents are 1-based sequences; positions are naturals.  *)
(* WM is the modelled word width (TLC integers have 31 value bits).        *)
(***************************************************************************)
EXTENDS Naturals, Sequences, FiniteSets, FiniteSetsExt, SequencesExt, Functions, Bitwise, NumericFn

MaxOf(s) == Max({s[k] : k \in 1..Len(s)})
Prod(s) == FoldFunction(LAMBDA a, b : a * b, 1, s)
Box(s) == {t \in [1..Len(s) -> 0..(MaxOf(s) - 1)] : \A k \in 1..Len(s) : t[k] < s[k]}

Bit(v, i) == (v \div (2 ^ i)) % 2

\* row-major as coded: idx += c[k] * prod_{l > k} sizes[l] -------------------------
RowMajor(s, c) ==
  LET N == Len(s)
      Term(k) == c[k] * FoldFunction(LAMBDA a, b : a * b, 1, [l \in (k + 1)..N |-> s[l]])
  IN FoldFunction(LAMBDA a, b : a + b, 0, [k \in 1..N |-> Term(k)])

\* published definition: position = sum_k c_k * prod_{l>k} N_l, via Horner (independent formulation)
RECURSIVE Horner(_, _, _, _)
Horner(s, c, k, acc) == IF k > Len(s) THEN acc ELSE Horner(s, c, k + 1, acc * s[k] + c[k])
RowMajorRef(s, c) == Horner(s, c, 1, 0)

\* Morton, published: bit i of coordinate j (first coordinate least significant) at position i*N + (j-1)
MortonBits(c, WM) ==
  LET N == Len(c) IN
  FoldFunction(LAMBDA a, b : a + b, 0, [q \in 0..(WM - 1) |-> Bit(c[(q % N) + 1], q \div N) * 2 ^ q])

\* Morton, portable loop as coded:
\*   for i in 0..(W/N - 1): for j in 0..N-1: idx |= (c[j] & (1 << i)) << (i*(N-1) + j)
MortonLoop(c, WM) ==
  LET N == Len(c)
      Steps == [q \in 1..((WM \div N) * N) |-> q - 1]      \* (i, j) in loop order: q = i*N + j
      Body(idx, q) == LET i == q \div N   j == q % N IN
                      idx | ((c[j + 1] & (2 ^ i)) * 2 ^ (i * (N - 1) + j))
  IN FoldLeft(Body, 0, Steps)

\* Morton, BMI2 as coded: mask_j = (OR of 1 << p for p % N = 0) << j ; idx = OR_j pdep(c[j], mask_j)
\* the mask is built for bit positions p % N = 0 and then shifted left by j inside the WM-bit word
Mask(N, j, WM) == FoldFunction(LAMBDA a, b : a | b, 0,
                     [p \in 0..(WM - 1) |-> IF p >= j /\ (p - j) % N = 0 THEN 2 ^ p ELSE 0])

RECURSIVE PdepFrom(_, _, _, _, _)
PdepFrom(v, mask, p, k, WM) ==   \* deposit bit k, k+1, ... of v at the set bits of mask from position p upwards
  IF p >= WM THEN 0
  ELSE IF Bit(mask, p) = 1 THEN Bit(v, k) * 2 ^ p + PdepFrom(v, mask, p + 1, k + 1, WM)
  ELSE PdepFrom(v, mask, p + 1, k, WM)
Pdep(v, mask, WM) == PdepFrom(v, mask, 0, 0, WM)

MortonPdep(c, WM) ==
  LET N == Len(c) IN
  FoldFunction(LAMBDA a, b : a | b, 0, [j \in 0..(N - 1) |-> Pdep(c[j + 1], Mask(N, j, WM), WM)])

\* Hilbert as coded (after the side-length repair): n = round_pow2(max extent)
Rot(n, x, y, rx, ry) ==      \* returns <<x', y'>>
  IF ry = 0
  THEN (IF rx = 1 THEN <<n - 1 - y, n - 1 - x>> ELSE <<y, x>>)
  ELSE <<x, y>>

RECURSIVE HilbertFrom(_, _, _, _, _)
HilbertFrom(n, sd, x, y, d) ==
  IF sd = 0 THEN d
  ELSE LET rx == IF (x & sd) > 0 THEN 1 ELSE 0
           ry == IF (y & sd) > 0 THEN 1 ELSE 0
           r  == Rot(n, x, y, rx, ry)
       IN HilbertFrom(n, sd \div 2, r[1], r[2], d + sd * sd * ((3 * rx) ^^ ry))
HilbertSide(s) == RoundPow2(MaxOf(s))
HilbertLoop(s, c) == LET n == HilbertSide(s) IN HilbertFrom(n, n \div 2, c[1], c[2], 0)

\* published inverse of the Hilbert map (d2xy) ---------------------------------
RECURSIVE D2XYFrom(_, _, _, _, _)
D2XYFrom(n, sd, t, x, y) ==
  IF sd >= n THEN <<x, y>>
  ELSE LET rx == (t \div 2) % 2
           ry == (t + rx) % 2            \* 1 & (t ^ rx)
           r  == Rot(sd, x, y, rx, ry)
       IN D2XYFrom(n, sd * 2, t \div 4, r[1] + sd * rx, r[2] + sd * ry)
D2XY(n, d) == D2XYFrom(n, 1, d, 0, 0)

Abs(a, b) == IF a >= b THEN a - b ELSE b - a
Adjacent(p, q) == Abs(p[1], q[1]) + Abs(p[2], q[2]) = 1

Layouts == {"strided", "morton", "morton_portable", "hilbert"}

Idx(layout, s, c, WM) ==
  CASE layout = "strided" -> RowMajor(s, c)
    [] layout = "morton" -> MortonPdep(c, WM)
    [] layout = "morton_portable" -> MortonLoop(c, WM)
    [] layout = "hilbert" -> HilbertLoop(s, c)

\* what the constructors allocate
StorageSize(layout, s) ==
  IF layout = "strided" THEN Prod(s)
  ELSE IPow(RoundPow2(MaxOf(s)), Len(s))

Applicable(layout, s) == layout # "hilbert" \/ Len(s) = 2
=============================================================================
