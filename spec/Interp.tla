-------------------------------- MODULE Interp --------------------------------
(***************************************************************************)
(* backend/transformer/linear.hpp on the exact domain: coordinates          *)
(* x_k = i_k + f_k / D with D a power of two, stored values integers.       *)
(* The result is represented by its integer NUMERATOR over D^N.             *)
(*   Corner(N, n, k)   which corner offset (0/1) neighbour n uses on axis k, *)
(*                     per branch, as coded (linear.hpp:149-158,177-183,     *)
(*                     212-223,261-276,325-334)                              *)
(*   Weight(...)       product of per-axis f_k or D - f_k, as coded          *)
(*   Linear(...)       sum over the 2^N neighbours                           *)
(*   Tensor(...)       the textbook N-linear interpolant, by recursion over  *)
(*                     the axes (interpolate axis 1 between the two          *)
(*                     (N-1)-linear interpolants) - an independent definition*)
(***************************************************************************)
EXTENDS Integers, Sequences, FiniteSets, FiniteSetsExt, Functions, Bitwise

Sum(f) == FoldFunction(LAMBDA a, b : a + b, 0, f)
Prd(f) == FoldFunction(LAMBDA a, b : a * b, 1, f)
Bit(v, i) == (v \div (2 ^ i)) % 2

\* neighbour n in 0..2^N-1, axis k in 1..N  ->  0 or 1
Corner(N, n, k) ==
  IF N <= 3 THEN Bit(n, N - k)       \* dedicated branches: the HIGH bit selects axis 1 ((n & 4) -> i, (n & 2) -> j, (n & 1) -> k)
  ELSE Bit(n, k - 1)                 \* generic branch: bit k-1 selects axis k

\* weight numerator of neighbour n: prod_k (corner ? f_k : D - f_k)
Weight(N, n, f, D) == Prd([k \in 1..N |-> IF Corner(N, n, k) = 1 THEN f[k] ELSE D - f[k]])

\* v is a function from lattice coordinates (sequences) to integers (one output component)
Linear(N, v, i, f, D) ==
  Sum([n \in 0..(2 ^ N - 1) |-> Weight(N, n, f, D) * v[[k \in 1..N |-> i[k] + Corner(N, n, k)]]])

\* cells of the backend that one lookup reads
Footprint(N, i) == {[k \in 1..N |-> i[k] + Corner(N, n, k)] : n \in 0..(2 ^ N - 1)}
CellVertices(N, i) == {[k \in 1..N |-> i[k] + b[k]] : b \in [1..N -> {0, 1}]}

\* textbook definition: numerator over D^(N-k+1) of the interpolant of axes k..N with axes 1..k-1 fixed by `pre'
RECURSIVE Tensor(_, _, _, _, _, _)
Tensor(N, v, i, f, D, pre) ==
  LET k == Len(pre) + 1 IN
  IF k > N THEN v[pre]
  ELSE (D - f[k]) * Tensor(N, v, i, f, D, Append(pre, i[k])) + f[k] * Tensor(N, v, i, f, D, Append(pre, i[k] + 1))
=============================================================================
