SPECIFICATION Spec
CONSTANTS
  Dims <- DimsAll
  ExtB <- Q1s
  LayoutsUsed <- Layouts
  MaxWrites = 1
  WM = 16
INVARIANTS Refines InStorage SizeLaw Injective
POSTCONDITION EmitCases
CHECK_DEADLOCK FALSE
