SPECIFICATION Spec
CONSTANTS
  NSample = 150
  Seed = 1
  CoverStride = 1
  FullDepth3 = TRUE
INVARIANTS Evaluable OuterLaw LatticeLaw BoundaryLaw
POSTCONDITION EmitCases
CHECK_DEADLOCK FALSE
