SPECIFICATION GSpec
CONSTANTS
  Slots <- Slots3
  Types <- TypesS
  ExtChoices <- Ext1
  Vals = {0}
  MaxOps = 7
  AssignImpl = "fixed"
  WM = 8
  ConstructSlots <- Slots3
  Unbounded = FALSE
  Canon = TRUE
  LinK = 2
  ViewIds <- NoViews
  Ops <- LineageOps
  EmitAll = TRUE
VIEW View
ACTION_CONSTRAINT EmitHist
INVARIANTS TypeOK Refines NoAlias NoUseAfterFree NoDoubleFree NoLeak ConfigKept
CHECK_DEADLOCK FALSE
