SPECIFICATION Spec
CONSTANTS
  MortonBitsPerDim <- QB
  HilbertKs <- HKq
  RowExtB <- RowQ
  WM = 30
INVARIANTS MortonLaw RowLaw HilbertLaw
POSTCONDITION EmitCases
CHECK_DEADLOCK FALSE
