SPECIFICATION Spec
CONSTANTS
  Slots <- Slots2
  Types <- TypesA
  ExtChoices <- ExtOne
  Vals = {0, 1}
  MaxOps = 1
  AssignImpl = "fixed"
  WM = 8
  ConstructSlots <- Slots2
  Unbounded = TRUE
  Canon = FALSE
  LinK = 0
  ViewIds <- Views1
  Ops <- AllOps
INVARIANTS TypeOK Refines NoAlias NoUseAfterFree NoDoubleFree NoLeak ConfigKept RoundTrip ViewsValid ViewsSeeOwner
PROPERTIES SourceUnchanged
CHECK_DEADLOCK FALSE
