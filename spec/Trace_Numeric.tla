--------------------------- MODULE Trace_Numeric ---------------------------
(* Trace validation of round_pow2 / ipow executions at widths TLC's own     *)
(* integers cannot hold (32 and 64 bits).  The laws are the ones Numeric    *)
(* establishes exhaustively at W = 8/12/16:                                 *)
(*   round_pow2(i) is the least power of two >= i       (1 <= i <= 2^(w-1)) *)
(*   round_pow2 is constant 2^k on the interval (2^(k-1), 2^k]              *)
(*   ipow(b, p) = b^p mod 2^w                                               *)
EXTENDS Naturals, Sequences, TLC, Json, IOUtils, Limbs

Log == ndJsonDeserialize(IOEnv.VF_TRACE)

VARIABLES l
vars == <<l>>
Init == l = 1
IsEvent(e) == l <= Len(Log) /\ Log[l].e = e /\ l' = l + 1

\* {e:"rp", n, i:[limbs], r:[limbs]}
TRp == /\ IsEvent("rp")
       /\ LET n == Log[l].n  i == Log[l].i  r == Log[l].r IN
            /\ IsLimbs(i, n) /\ IsLimbs(r, n)
            /\ IsPow2Limbs(r)
            /\ Leq(i, r)
            /\ (Log2(r) = 0 \/ Less(Pow2(Log2(r) - 1, n), i))

\* {e:"rp_interval", n, k, lo_ok, count}: the harness evaluated round_pow2 on every i of (2^(k-1), 2^k]
\* and reports the single value it saw (v, limbs) and how many inputs it ran
TRpInterval == /\ IsEvent("rp_interval")
               /\ LET n == Log[l].n  k == Log[l].k IN
                    /\ Log[l].distinct = 1
                    /\ Log[l].v = Pow2(k, n)
                    /\ Log[l].count = Pow2(k - 1, n)   \* |(2^(k-1), 2^k]| = 2^(k-1), as limbs

\* {e:"ipow", n, b:[limbs], p:int, r:[limbs]}
TIpow == /\ IsEvent("ipow")
         /\ LET n == Log[l].n IN
              /\ IsLimbs(Log[l].b, n) /\ IsLimbs(Log[l].r, n)
              /\ Log[l].r = Pow(Log[l].b, Log[l].p)

Next == TRp \/ TRpInterval \/ TIpow
Spec == Init /\ [][Next]_vars

Accepted == IF TLCGet("stats").diameter - 1 = Len(Log)
            THEN TRUE
            ELSE /\ PrintT(<<"TRACE-REJECTED matched-prefix", TLCGet("stats").diameter - 1, "of", Len(Log)>>)
                 /\ FALSE
=============================================================================
