SPECIFICATION Spec
CONSTANTS
  D = 4
  Exts <- ExtT
  MaxNExh = 3
  MaxN = 5
  M = 3
INVARIANTS InterpolantLaw LatticeLaw RangeLaw CornerLaw WeightsSumLaw
POSTCONDITION EmitCases
CHECK_DEADLOCK FALSE
