------------------------------- MODULE CoordMC -------------------------------
(***************************************************************************)
(* E1 for C04 / C10 / C11.                                                  *)
(*  - NN: the rel-based rule equals "lattice points within one half".       *)
(*  - clamp: result inside the box, idempotent, equal to the median; a      *)
(*    clamped lookup is the backend's value at the clamped coordinate.      *)
(*  - backup: a small state machine with a ghost counter of backend         *)
(*    queries: outside the closed box the default is returned and the       *)
(*    counter is unchanged; inside, the backend value and one more query.   *)
(* Rank alphabet: MINR / MAXR stand for the extremes of the coordinate type,  *)
(* NEGINF / POSINF for the infinities of a floating type; the ranks in        *)
(* between are small integers that the harness maps to literal integers or,  *)
(* for floating types, also to successive representable values (1 ulp apart).*)
(***************************************************************************)
EXTENDS Coord, Json, IOUtils, SequencesExt

CONSTANTS MaxN,      \* dimensionalities 1..MaxN
          BoxRanks,  \* ranks usable as box bounds
          Ranks,     \* ranks usable as coordinates (includes MINR, MAXR)
          MaxLookups

NEGINF == -200     \* -infinity (floating types only)
MINR == -100       \* numeric_limits<T>::lowest()
MAXR == 100        \* numeric_limits<T>::max()
POSINF == 200      \* +infinity (floating types only)
RanksQ == {NEGINF, MINR, -1, 0, 1, 2, 3, 4, MAXR, POSINF}
BoxQ == {MINR, 0, 1, 3, MAXR}

Boxes(n) == {b \in [1..n -> BoxRanks] \X [1..n -> BoxRanks] : \A i \in 1..n : b[1][i] <= b[2][i]}
Coords(n) == [1..n -> Ranks]

\* the backend beneath: an injective encoding of the coordinate it is asked for (so that "queried at the
\* clamped coordinate" is observable through the returned value), as identity<...> does in the harness
BackendValue(x) == <<"backend-at", x>>
DefaultValue == <<"default">>

VARIABLES n, lo, hi, x, result, queries, steps, mode
vars == <<n, lo, hi, x, result, queries, steps, mode>>

Init == /\ n \in 1..MaxN
        /\ \E b \in Boxes(n) : lo = b[1] /\ hi = b[2]
        /\ mode \in {"clamp", "backup"}
        /\ x = [i \in 1..n |-> 0] /\ result = <<"none">> /\ queries = 0 /\ steps = 0

ClampLookup(c) == /\ mode = "clamp"
                  /\ x' = c
                  /\ result' = BackendValue(Clamp(c, lo, hi))
                  /\ queries' = queries + 1

BackupLookup(c) == /\ mode = "backup"
                   /\ x' = c
                   /\ IF InBox(c, lo, hi)
                      THEN result' = BackendValue(c) /\ queries' = queries + 1
                      ELSE result' = DefaultValue /\ queries' = queries

Next == /\ steps < MaxLookups
        /\ steps' = steps + 1
        /\ \E c \in Coords(n) : ClampLookup(c) \/ BackupLookup(c)
        /\ UNCHANGED <<n, lo, hi, mode>>
Spec == Init /\ [][Next]_vars

\* C10
ClampSafe == (mode = "clamp" /\ steps > 0) =>
   LET y == Clamp(x, lo, hi) IN
     /\ InBox(y, lo, hi)
     /\ Clamp(y, lo, hi) = y
     /\ \A i \in 1..n : y[i] = Median(x[i], lo[i], hi[i])
     /\ result = BackendValue(y)
     /\ (InBox(x, lo, hi) => y = x)
\* C11
BackupLaw == (mode = "backup" /\ steps > 0) =>
     /\ ((\E i \in 1..n : x[i] < lo[i] \/ x[i] > hi[i]) <=> result = DefaultValue)
     /\ (InBox(x, lo, hi) => result = BackendValue(x))
NoQueryOutside == [][(mode = "backup" /\ ~InBox(x', lo, hi)) => queries' = queries]_vars
OneQueryInside == [][(mode = "backup" /\ steps' > steps /\ InBox(x', lo, hi)) => queries' = queries + 1]_vars

\* C04 (state-independent; checked once per run as an assumption over the whole rank grid)
NNLaw == \A k \in -2..6, pos \in NNPositions : NNAllowed(k, Rel(pos)) = WithinHalf(k, pos)
ASSUME NNLaw

\* emission: (n, box, coordinate) -> clamped coordinate, inside?
CaseRec(m, l, h, c) == [n |-> m, lo |-> l, hi |-> h, x |-> c, clamped |-> Clamp(c, l, h), inside |-> InBox(c, l, h)]
ExhCases == UNION {{CaseRec(m, b[1], b[2], c) : b \in Boxes(m), c \in Coords(m)} : m \in 1..MaxN}
\* N = 3, 4: the layers act per axis, so a rotating cover puts every (lo, hi, x) triple on every axis
Triples == SetToSeq({t \in BoxRanks \X BoxRanks \X Ranks : t[1] <= t[2]})
CoverCase(m, j, stride) == LET T(i) == Triples[((j + stride * (i - 1)) % Len(Triples)) + 1] IN
   CaseRec(m, [i \in 1..m |-> T(i)[1]], [i \in 1..m |-> T(i)[2]], [i \in 1..m |-> T(i)[3]])
CoverCases == {CoverCase(m, j, st) : m \in 3..4, j \in 0..(Len(Triples) - 1), st \in {1, 7, 13}}
BoxCases == ExhCases \cup CoverCases
NNCases == UNION {{[n |-> m, k |-> kk, pos |-> pp,
                    allowed |-> [i \in 1..m |-> SetToSeq(NNAllowed(kk[i], Rel(pp[i])))]]
                      : kk \in [1..m -> {-1, 0, 1, 2, 5}], pp \in [1..m -> NNPositions]} : m \in 1..MaxN}
           \cup {[n |-> m, k |-> [i \in 1..m |-> ((j + i) % 4) - (IF (j + 3 * i) % 8 > 4 /\ (j + i) % 4 = 0 THEN 1 ELSE 0)],
                   pos |-> [i \in 1..m |-> SetToSeq(NNPositions)[((j + 3 * i) % 8) + 1]],
                   allowed |-> [i \in 1..m |-> SetToSeq(NNAllowed(((j + i) % 4) - (IF (j + 3 * i) % 8 > 4 /\ (j + i) % 4 = 0 THEN 1 ELSE 0), Rel(SetToSeq(NNPositions)[((j + 3 * i) % 8) + 1])))]]
                 : m \in 3..4, j \in 0..63}
NNCasesOK(c) == \A i \in 1..c.n : c.k[i] >= 0 \/ c.pos[i] > 8     \* (-0.5, extent - 0.5): k = -1 only above the half
EmitCases == TLCGet("stats").generated >= 0 /\
  ndJsonSerialize(IOEnv.VF_OUT, SetToSeq(BoxCases)) /\
  ndJsonSerialize(IOEnv.VF_OUT2, SetToSeq({c \in NNCases : NNCasesOK(c)}))
=============================================================================
