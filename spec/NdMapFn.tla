------------------------------ MODULE NdMapFn ------------------------------
(* The recursion of covfie::utility::nd_map as coded (peel the first extent, *)
(* recurse on the tail, prepend the peeled index): the sequence of index     *)
(* tuples in the order the callback is invoked.  Constant-level, so that     *)
(* other modules (Lifecycle: re-layout copies) can use it.                   *)
EXTENDS Naturals, Sequences, SequencesExt

RECURSIVE Visits(_)
Visits(s) ==
  IF Len(s) = 1
  THEN [i \in 1..s[1] |-> <<i - 1>>]
  ELSE LET tl == Visits(Tail(s))
       IN  FlattenSeq([i \in 1..s[1] |-> [j \in 1..Len(tl) |-> <<i - 1>> \o tl[j]]])
=============================================================================
