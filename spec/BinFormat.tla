------------------------------ MODULE BinFormat ------------------------------
(***************************************************************************)
(* The binary format of covfie fields (field.hpp:51-72, utility/binary_io,  *)
(* read_binary / write_binary of every layer) as a grammar over 16-bit      *)
(* little-endian LIMBS, so that every 32/64-bit word of a real file is      *)
(* representable with TLC's 32-bit integers and byte-exact comparison with  *)
(* a real dump is possible.                                                 *)
(*                                                                         *)
(*   file   ::= HDR(FIELD) layer FTR(FIELD)                                 *)
(*   layer  ::= HDR(tag) config layer FTR(tag)        affine, clamp, backup, *)
(*                                                    strided, morton,      *)
(*                                                    hilbert               *)
(*            | layer                                 linear, nearest,      *)
(*                                                    shuffle, cast, deref  *)
(*            | HDR(ARRAY) width:u32 count:u64 scalar^(count*M) FTR(ARRAY)  *)
(*            | HDR(CONSTANT) scalar^M FTR(CONSTANT)                        *)
(*            | HDR(IDENTITY) FTR(IDENTITY)                                 *)
(*   HDR(t) ::= 0xC04F1EAB t         FTR(t) ::= 0xC04F1E70 (t + 0x20000000) *)
(*                                                                         *)
(* A stack TYPE is a sequence of layer type records (outermost first); an   *)
(* INSTANCE additionally carries the configuration limbs of every layer and *)
(* the array data.  Stored scalars and configuration scalars are opaque     *)
(* limb sequences: the format is value-agnostic (signed zeros, subnormals,  *)
(* infinities and NaN payloads are just words).                             *)
(***************************************************************************)
EXTENDS Naturals, Sequences, SequencesExt, FiniteSets, Float

\* ------------------------------------------------------------------ words
MagicH == <<7851, 49231>>          \* 0xC04F1EAB = hi 0xC04F, lo 0x1EAB
MagicF == <<7792, 49231>>          \* 0xC04F1E70
TagOf(k) == CASE k = "field"    -> <<0, 43776>>        \* 0xAB000000
              [] k = "array"    -> <<0, 43777>>        \* 0xAB010000
              [] k = "constant" -> <<1, 43777>>        \* 0xAB010001
              [] k = "identity" -> <<2, 43777>>        \* 0xAB010002
              [] k = "affine"   -> <<0, 43778>>        \* 0xAB020000
              [] k = "backup"   -> <<1, 43778>>        \* 0xAB020001
              [] k = "clamp"    -> <<2, 43778>>        \* 0xAB020002
              [] k = "hilbert"  -> <<4, 43778>>        \* 0xAB020004
              [] k = "morton"   -> <<6, 43778>>        \* 0xAB020006
              [] k = "strided"  -> <<16, 43778>>       \* 0xAB020010
FooterTag(t) == <<t[1], t[2] + 8192>>                  \* + 0x20000000
Hdr(k) == MagicH \o TagOf(k)
Ftr(k) == MagicF \o FooterTag(TagOf(k))
U64(v) == <<v % 65536, v \div 65536, 0, 0>>            \* v < 2^31
U32(v) == <<v % 65536, v \div 65536>>

Transparent == {"linear", "nearest", "shuffle", "cast", "deref"}   \* layers with no on-disk footprint
Wrappers == {"affine", "clamp", "backup", "strided", "morton", "hilbert"}

\* number of configuration limbs of a layer type
CfgLen(t) == CASE t.k = "affine" -> t.n * (t.n + 1) * t.cw
               [] t.k = "clamp" -> 2 * t.n * t.cw
               [] t.k = "backup" -> (2 * t.n * t.cw) + (t.m * t.ow)
               [] t.k \in {"strided", "morton", "hilbert"} -> 4 * t.n
               [] t.k = "constant" -> t.m * t.ow
               [] OTHER -> 0

Flatten(ss) == FlattenSeq(ss)

\* ------------------------------------------------------------------ serialisation
\* an instance layer = its type record plus cfg (limbs) and, for array, count and data (sequence of scalars)
RECURSIVE SerLayers(_)
SerLayers(L) ==
  IF L = <<>> THEN <<>>
  ELSE LET h == Head(L) IN
    IF h.k \in Transparent THEN SerLayers(Tail(L))
    ELSE IF h.k = "array" THEN Hdr("array") \o U32(2 * h.w) \o U64(h.count) \o Flatten(h.data) \o Ftr("array")
    ELSE IF h.k = "constant" THEN Hdr("constant") \o h.cfg \o Ftr("constant")
    ELSE IF h.k = "identity" THEN Hdr("identity") \o Ftr("identity")
    ELSE Hdr(h.k) \o h.cfg \o SerLayers(Tail(L)) \o Ftr(h.k)
Ser(inst) == Hdr("field") \o SerLayers(inst) \o Ftr("field")

\* ------------------------------------------------------------------ parsing (the reader, functionally)
Take(s, n) == SubSeq(s, 1, n)
Drop(s, n) == SubSeq(s, n + 1, Len(s))
Fail == [ok |-> FALSE, layers |-> <<>>, rest |-> <<>>]
Expect(s, w) == Len(s) >= Len(w) /\ Take(s, Len(w)) = w

\* conversion of one stored scalar between the on-disk width and the in-memory width of the reading type
Convert(x, wdisk, wmem) == IF wdisk = wmem THEN x ELSE IF wdisk = 2 THEN Widen(x) ELSE Narrow(x)

Chunks(s, w) == [i \in 1..(Len(s) \div w) |-> SubSeq(s, (i - 1) * w + 1, i * w)]

RECURSIVE ParseLayers(_, _)
ParseLayers(T, s) ==      \* T: sequence of layer TYPE records of the reading stack; s: limbs
  IF T = <<>> THEN [ok |-> TRUE, layers |-> <<>>, rest |-> s]
  ELSE LET t == Head(T) IN
    IF t.k \in Transparent
    THEN LET r == ParseLayers(Tail(T), s) IN
         IF r.ok THEN [ok |-> TRUE, layers |-> <<t>> \o r.layers, rest |-> r.rest] ELSE Fail
    ELSE IF ~Expect(s, Hdr(t.k)) THEN Fail
    ELSE LET s1 == Drop(s, 4) IN
      IF t.k = "array" THEN
        IF Len(s1) < 6 THEN Fail
        ELSE LET wb == s1[1]                         \* width word (low limb; the high limb must be 0)
                 cnt == s1[3]                        \* count (low limb; instances keep counts below 2^16)
             IN IF s1[2] # 0 \/ wb \notin {4, 8} \/ s1[4] # 0 \/ s1[5] # 0 \/ s1[6] # 0 THEN Fail
                ELSE LET wd == wb \div 2                              \* on-disk scalar width in limbs
                         need == cnt * t.m * wd
                         s2 == Drop(s1, 6)
                     IN IF Len(s2) < need + 4 \/ ~Expect(Drop(s2, need), Ftr("array")) THEN Fail
                        ELSE [ok |-> TRUE,
                              layers |-> <<[t EXCEPT !.count = cnt,
                                                      !.data = [i \in 1..(cnt * t.m) |-> Convert(Chunks(Take(s2, need), wd)[i], wd, t.w)]]>>,
                              rest |-> Drop(s2, need + 4)]
      ELSE IF t.k \in {"constant", "identity"} THEN
        LET n == CfgLen(t) IN
        IF Len(s1) < n + 4 \/ ~Expect(Drop(s1, n), Ftr(t.k)) THEN Fail
        ELSE [ok |-> TRUE, layers |-> <<[t EXCEPT !.cfg = Take(s1, n)]>>, rest |-> Drop(s1, n + 4)]
      ELSE LET n == CfgLen(t) IN
        IF Len(s1) < n THEN Fail
        ELSE LET r == ParseLayers(Tail(T), Drop(s1, n)) IN
             IF ~r.ok \/ ~Expect(r.rest, Ftr(t.k)) THEN Fail
             ELSE [ok |-> TRUE, layers |-> <<[t EXCEPT !.cfg = Take(s1, n)]>> \o r.layers, rest |-> Drop(r.rest, 4)]

Parse(T, s) ==
  IF ~Expect(s, Hdr("field")) THEN Fail
  ELSE LET r == ParseLayers(T, Drop(s, 4)) IN
       IF ~r.ok \/ ~Expect(r.rest, Ftr("field")) THEN Fail
       ELSE [ok |-> TRUE, layers |-> r.layers, rest |-> Drop(r.rest, 4)]

\* the type of an instance (values forgotten)
TypeOfLayer(h) == IF h.k = "array" THEN [h EXCEPT !.count = 0, !.data = <<>>]
                  ELSE IF "cfg" \in DOMAIN h THEN [h EXCEPT !.cfg = <<>>] ELSE h
TypeOf(inst) == [i \in 1..Len(inst) |-> TypeOfLayer(inst[i])]

\* ------------------------------------------------------------------ portability (C07)
\* what a type leaves on disk: its non-transparent layers, the array's float width forgotten
DiskShape(t) == IF t.k = "array" THEN [k |-> "array", m |-> t.m]
                ELSE [k |-> t.k, len |-> CfgLen(t)]
OnDisk(T) == LET S == SelectSeq(T, LAMBDA t : t.k \notin Transparent) IN [i \in 1..Len(S) |-> DiskShape(S[i])]
Compat(T1, T2) == OnDisk(T1) = OnDisk(T2)
\* The number of components M of the stored vectors is NOT recorded in a file; it only shows through the payload length.
\* An EMPTY array therefore loads into any M (there is no payload to mis-size): for an instance x the on-disk shape
\* forgets M when the array has no cells.  (Observation about the format, DESIGN.md 10.3; not a finding: an empty field
\* has no component that could be misread.)
DiskShapeI(h) == IF h.k = "array" THEN [k |-> "array", m |-> IF h.count = 0 THEN 0 ELSE h.m] ELSE [k |-> h.k, len |-> CfgLen(h)]
DiskShapeT(t, empty) == IF t.k = "array" THEN [k |-> "array", m |-> IF empty THEN 0 ELSE t.m] ELSE [k |-> t.k, len |-> CfgLen(t)]
HasEmptyArray(x) == \E i \in 1..Len(x) : x[i].k = "array" /\ x[i].count = 0
CompatInst(x, T2) ==
  LET X == SelectSeq(x, LAMBDA h : h.k \notin Transparent)
      S2 == SelectSeq(T2, LAMBDA t : t.k \notin Transparent) IN
  /\ Len(X) = Len(S2)
  /\ \A i \in 1..Len(X) : DiskShapeI(X[i]) = DiskShapeT(S2[i], HasEmptyArray(x))

\* what loading x (written from its own type) into type T2 must produce: every configuration unchanged, values
\* widened exactly or narrowed to nearest
RetypeLayer(h, t2) == IF h.k = "array"
                      THEN [t2 EXCEPT !.count = h.count, !.data = [i \in 1..Len(h.data) |-> Convert(h.data[i], h.w, t2.w)]]
                      ELSE [t2 EXCEPT !.cfg = h.cfg]
Retype(x, T2) ==    \* requires Compat(TypeOf(x), T2): walk the non-transparent layers in parallel
  LET xs == SelectSeq(x, LAMBDA h : h.k \notin Transparent)
      idx(i) == Cardinality({j \in 1..i : T2[j].k \notin Transparent})
  IN [i \in 1..Len(T2) |-> IF T2[i].k \in Transparent THEN T2[i] ELSE RetypeLayer(xs[idx(i)], T2[i])]
=============================================================================
