SPECIFICATION Spec
CONSTANTS
  NThreads = 2
  LayoutsUsed <- LayoutsAll
  Interps <- InterpsAll
  ExtT <- ExtB
  WM = 8
  MaxWriters = 2
INVARIANTS RaceFree InBounds Deterministic
PROPERTIES Terminates
POSTCONDITION EmitCases
CHECK_DEADLOCK FALSE
