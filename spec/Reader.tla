-------------------------------- MODULE Reader --------------------------------
(***************************************************************************)
(* C08: the loader as a state machine over a (possibly faulty) limb stream. *)
(* One action per istream read group the code performs, in the order the    *)
(* code performs them (utility/binary_io.hpp:40-134, field.hpp:51-56,       *)
(* primitive/array.hpp:113-152, read_binary of every layer):                *)
(*   ReadHeader  two u32 reads, then magic and tag are compared             *)
(*   ReadConfig  one read of the layer's configuration object               *)
(*   ReadWidth   one u32 read, must be 4 or 8                               *)
(*   ReadCount   one u64 read, storage is allocated for it                  *)
(*   ReadScalar  one read per stored scalar                                 *)
(*   ReadFooter  two u32 reads, then magic and tag are compared             *)
(* Faults are chosen in the initial state: the writer was interrupted after *)
(* any limb (Truncate), one header / footer / tag / width limb was altered  *)
(* (Corrupt), the stream starts failing at the n-th read (FailAt), or the   *)
(* file is read with another stack type.                                    *)
(*                                                                         *)
(* ReadImpl = "fixed": a short or failed read throws (what C08 demands and   *)
(* what /repo does after the repair).  "pinned_ndebug" / "pinned_debug" are  *)
(* what the pinned revision did: the value of an uninitialised local decides*)
(* (modelled as a nondeterministic comparison) resp. the assertion at the   *)
(* next read aborts.                                                        *)
(***************************************************************************)
EXTENDS BinCatalogue

CONSTANTS ReadImpl, FaultKinds, TypeIds, WithLarge

\* ---------------------------------------------------------------- the read program of a stack type
OpH(k) == [op |-> "hdr", k |-> k, n |-> 4]
OpF(k) == [op |-> "ftr", k |-> k, n |-> 4]
RECURSIVE ProgL(_)
ProgL(T) ==
  IF T = <<>> THEN <<>>
  ELSE LET t == Head(T) IN
    IF t.k \in Transparent THEN ProgL(Tail(T))
    ELSE IF t.k = "array" THEN <<OpH("array"), [op |-> "width", n |-> 2], [op |-> "count", n |-> 4, m |-> t.m], OpF("array")>>
    ELSE IF t.k \in {"constant", "identity"} THEN <<OpH(t.k)>> \o (IF CfgLen(t) > 0 THEN <<[op |-> "cfg", n |-> CfgLen(t)]>> ELSE <<>>) \o <<OpF(t.k)>>
    ELSE <<OpH(t.k), [op |-> "cfg", n |-> CfgLen(t)]>> \o ProgL(Tail(T)) \o <<OpF(t.k)>>
Prog(T) == <<OpH("field")>> \o ProgL(T) \o <<OpF("field")>>

\* ---------------------------------------------------------------- marks: what each limb of a dump is
Rep(x, n) == [i \in 1..n |-> x]
RECURSIVE MarkL(_)
MarkL(L) ==
  IF L = <<>> THEN <<>>
  ELSE LET h == Head(L)  HM == <<"magic", "magic", "tag", "tag">> IN
    IF h.k \in Transparent THEN MarkL(Tail(L))
    ELSE IF h.k = "array" THEN HM \o <<"width", "widthhi">> \o Rep("count", 4) \o Rep("data", h.count * h.m * h.w) \o HM
    ELSE IF h.k \in {"constant", "identity"} THEN HM \o Rep("cfg", CfgLen(h)) \o HM
    ELSE HM \o Rep("cfg", CfgLen(h)) \o MarkL(Tail(L)) \o HM
Marks(inst) == <<"magic", "magic", "tag", "tag">> \o MarkL(inst) \o <<"magic", "magic", "tag", "tag">>

\* replacement values for a limb carrying mark mk and value old
Replacements(mk, old) ==
  CASE mk = "magic" -> {0, old + 1, IF old = 7851 THEN 7792 ELSE IF old = 7792 THEN 7851 ELSE 49230} \ {old}
    [] mk = "tag" -> {0, old + 1, IF old >= 50000 THEN old - 8192 ELSE old + 8192, 43777, 43778, 16} \ {old}
    [] mk = "width" -> {0, 2, 5, IF old = 4 THEN 8 ELSE 4} \ {old}
    [] mk = "widthhi" -> {1}
    [] OTHER -> {}

\* number of istream reads an intact load performs
Reads(inst) == LET P == Prog(TypeOf(inst)) IN
   Len(P) + Cardinality({i \in 1..Len(P) : P[i].op \in {"hdr", "ftr"}})
   + (IF \E i \in 1..Len(inst) : inst[i].k = "array" THEN LET a == CHOOSE i \in 1..Len(inst) : inst[i].k = "array" IN inst[a].count * inst[a].m ELSE 0)

VARIABLES fault,     \* the fault chosen for this run (record)
          rtid,      \* type index the loader is instantiated for
          s,         \* the stream it sees
          pos,       \* limbs consumed
          prog,      \* read program still to execute
          scal,      \* scalars still to read in the array payload, and their width on disk
          nreads,    \* istream reads performed so far
          failed,    \* pinned only: a read has already failed (failbit set)
          outcome    \* "running" | "returned" | "threw" | "aborted"
rvars == <<fault, rtid, s, pos, prog, scal, nreads, failed, outcome>>

Base(iv) == Ser(Inst(iv[1], iv[2]))
Faults(iv) ==
  LET b == Base(iv)  mk == Marks(Inst(iv[1], iv[2])) IN
  (IF "none" \in FaultKinds THEN {[f |-> "none"]} ELSE {})
  \cup (IF "truncate" \in FaultKinds THEN {[f |-> "truncate", at |-> k] : k \in 0..(Len(b) - 1)} ELSE {})
  \cup (IF "corrupt" \in FaultKinds
        THEN UNION {{[f |-> "corrupt", at |-> j, val |-> v] :
                        v \in {w \in Replacements(mk[j], b[j]) :
                                 \* swapping the width 4 <-> 8 of an EMPTY array yields a valid dump of an empty array of the
                                 \* other precision: not a fault
                                 ~(mk[j] = "width" /\ w \in {4, 8} /\ HasEmptyArray(Inst(iv[1], iv[2])))}}
                    : j \in 1..Len(b)}
        ELSE {})
  \cup (IF "failat" \in FaultKinds THEN {[f |-> "failat", n |-> n] : n \in 1..Reads(Inst(iv[1], iv[2]))} ELSE {})
Apply(b, ft) == IF ft.f = "truncate" THEN SubSeq(b, 1, ft.at)
                ELSE IF ft.f = "corrupt" THEN [b EXCEPT ![ft.at] = ft.val]
                ELSE b

RInit == /\ \E iv \in {x \in Instances : x[1] \in TypeIds /\ (WithLarge \/ x[2] # LargeV)} :
              ( (\E ft \in Faults(iv) :
                    /\ fault = ft @@ [tid |-> iv[1], v |-> iv[2]]
                    /\ rtid = iv[1]
                    /\ s = Apply(Base(iv), ft))
                \/ ("wrongtype" \in FaultKinds /\ \E t2 \in 1..NTypes :
                    /\ ~CompatInst(Inst(iv[1], iv[2]), TypeCat[t2])
                    /\ fault = [f |-> "wrongtype", tid |-> iv[1], v |-> iv[2], t2 |-> t2]
                    /\ rtid = t2
                    /\ s = Base(iv)) )
         /\ pos = 0 /\ prog = Prog(TypeCat[rtid]) /\ scal = [left |-> 0, w |-> 0]
         /\ nreads = 0 /\ failed = FALSE /\ outcome = "running"

AllFaults == {"none", "truncate", "corrupt", "failat", "wrongtype"}
QuickTypes == {1, 3, 5, 10, 12, 13, 17}
AllTypes == 1..NTypes
OnlyArray == {3}
TruncOnly == {"truncate"}

\* does an istream read of n limbs at the current position succeed?  k = which read of this action (1 or 2)
FailsNow(k) == fault.f = "failat" /\ nreads + k >= fault.n
Enough(n) == pos + n <= Len(s)
Limbs(n) == SubSeq(s, pos + 1, pos + n)

Throw == outcome' = "threw" /\ UNCHANGED <<fault, rtid, s, pos, prog, scal, nreads, failed>>
Abort == outcome' = "aborted" /\ UNCHANGED <<fault, rtid, s, pos, prog, scal, nreads, failed>>

\* what happens when a read cannot be satisfied
ShortRead(op) ==
  IF ReadImpl = "fixed" THEN Throw
  ELSE IF ReadImpl = "pinned_debug" /\ failed THEN Abort            \* assert(fs.good()) at the next read
  ELSE \* the local stays uninitialised: any later comparison may go either way
       /\ failed' = TRUE /\ pos' = Len(s) /\ nreads' = nreads + 1
       /\ \/ (prog' = Tail(prog) /\ scal' = scal /\ outcome' = outcome)          \* garbage happened to be acceptable
          \/ (op \in {"hdr", "ftr", "width"} /\ outcome' = "threw" /\ prog' = prog /\ scal' = scal)
       /\ UNCHANGED <<fault, rtid, s>>

Running == outcome = "running" /\ prog # <<>> /\ scal.left = 0
PinnedAssert == ReadImpl = "pinned_debug" /\ failed

ReadHeaderOrFooter ==
  /\ Running /\ Head(prog).op \in {"hdr", "ftr"}
  /\ IF PinnedAssert THEN Abort
     ELSE IF ~Enough(4) \/ FailsNow(2) THEN ShortRead(Head(prog).op)
     ELSE LET want == IF Head(prog).op = "hdr" THEN Hdr(Head(prog).k) ELSE Ftr(Head(prog).k) IN
          IF Limbs(4) # want THEN Throw                                   \* non-matching magic or tag: std::runtime_error
          ELSE /\ pos' = pos + 4 /\ prog' = Tail(prog) /\ nreads' = nreads + 2
               /\ UNCHANGED <<fault, rtid, s, scal, failed, outcome>>

ReadConfig ==
  /\ Running /\ Head(prog).op = "cfg"
  /\ IF PinnedAssert THEN Abort
     ELSE IF ~Enough(Head(prog).n) \/ FailsNow(1) THEN ShortRead("cfg")
     ELSE /\ pos' = pos + Head(prog).n /\ prog' = Tail(prog) /\ nreads' = nreads + 1
          /\ UNCHANGED <<fault, rtid, s, scal, failed, outcome>>

ReadWidth ==
  /\ Running /\ Head(prog).op = "width"
  /\ IF PinnedAssert THEN Abort
     ELSE IF ~Enough(2) \/ FailsNow(1) THEN ShortRead("width")
     ELSE IF Limbs(2)[2] # 0 \/ Limbs(2)[1] \notin {4, 8} THEN Throw      \* neither IEEE single nor double
     ELSE /\ pos' = pos + 2 /\ prog' = Tail(prog) /\ nreads' = nreads + 1
          /\ scal' = [left |-> 0, w |-> Limbs(2)[1] \div 2]
          /\ UNCHANGED <<fault, rtid, s, failed, outcome>>

ReadCount ==
  /\ Running /\ Head(prog).op = "count"
  /\ IF PinnedAssert THEN Abort
     ELSE IF ~Enough(4) \/ FailsNow(1) THEN ShortRead("count")
     ELSE IF Limbs(4)[2] # 0 \/ Limbs(4)[3] # 0 \/ Limbs(4)[4] # 0 THEN Throw   \* absurd count: allocation / later read fails
     ELSE /\ pos' = pos + 4 /\ prog' = Tail(prog) /\ nreads' = nreads + 1
          /\ scal' = [scal EXCEPT !.left = Limbs(4)[1] * Head(prog).m]
          /\ UNCHANGED <<fault, rtid, s, failed, outcome>>

ReadScalar ==
  /\ outcome = "running" /\ scal.left > 0
  /\ IF PinnedAssert THEN Abort
     ELSE IF ~Enough(scal.w) \/ FailsNow(1)
     THEN (IF ReadImpl = "fixed" THEN Throw
           ELSE /\ failed' = TRUE /\ pos' = Len(s) /\ nreads' = nreads + 1 /\ scal' = [scal EXCEPT !.left = @ - 1]
                /\ UNCHANGED <<fault, rtid, s, prog, outcome>>)
     ELSE /\ pos' = pos + scal.w /\ scal' = [scal EXCEPT !.left = @ - 1] /\ nreads' = nreads + 1
          /\ UNCHANGED <<fault, rtid, s, prog, failed, outcome>>

Return ==
  /\ outcome = "running" /\ prog = <<>> /\ scal.left = 0
  /\ outcome' = "returned"
  /\ UNCHANGED <<fault, rtid, s, pos, prog, scal, nreads, failed>>

RNext == ReadHeaderOrFooter \/ ReadConfig \/ ReadWidth \/ ReadCount \/ ReadScalar \/ Return
RSpec == RInit /\ [][RNext]_rvars /\ WF_rvars(RNext)

\* ---------------------------------------------------------------- properties
Faulty == fault.f \in {"truncate", "corrupt", "failat", "wrongtype"}
\* C08: a faulty stream never yields a field, never aborts
NeverReturnsOnFault == Faulty => outcome \notin {"returned", "aborted"}
RejectsFault == Faulty => <>(outcome = "threw")
\* an intact stream read by a compatible type is accepted, consistently with the functional parser
AcceptsIntact == (fault.f = "none") => <>(outcome = "returned")
AgreesWithParse == (outcome = "returned") => Parse(TypeCat[rtid], s).ok
RejectAgreesWithParse == (outcome = "threw" /\ fault.f \in {"truncate", "corrupt", "wrongtype"}) => ~Parse(TypeCat[rtid], s).ok
Terminates == <>(outcome # "running")

\* ---------------------------------------------------------------- emission of the fault catalogue for the harness
FaultCases == UNION {{[tid |-> iv[1], v |-> iv[2], fault |-> ft] : ft \in Faults(iv)} : iv \in {x \in Instances : x[1] \in TypeIds /\ (WithLarge \/ x[2] # LargeV)}}
WrongTypeCases == {[tid |-> iv[1], v |-> iv[2], fault |-> [f |-> "wrongtype", t2 |-> t2]] :
                      iv \in {x \in Instances : x[1] \in TypeIds /\ x[2] = 1}, t2 \in {t \in 1..NTypes : TRUE}}
EmitFaults == TLCGet("stats").generated >= 0 /\
  ndJsonSerialize(IOEnv.VF_OUT2,
     SetToSeq({c \in FaultCases : c.fault.f # "none"})
     \o SetToSeq({c \in WrongTypeCases : ~CompatInst(Inst(c.tid, c.v), TypeCat[c.fault.t2])}))
=============================================================================
