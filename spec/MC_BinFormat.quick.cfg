SPECIFICATION Spec
CONSTANTS
  NVal = 2
  Seed = 1
INVARIANTS RoundTripLaw GrammarLaw CompatLaw WidenBackLaw
POSTCONDITION EmitCases
CHECK_DEADLOCK FALSE
