SPECIFICATION Spec
CONSTANTS
  W = 16
  Prog = "both"
  RpInputs <- RpDomain
  IpBases <- IpSampleBases
  IpExps <- IpSampleExps
INVARIANTS TypeOK RP_Correct RP_LoopInv IP_Correct
PROPERTIES Terminates
POSTCONDITION EmitCases
CHECK_DEADLOCK FALSE
