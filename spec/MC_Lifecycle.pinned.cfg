SPECIFICATION Spec
CONSTANTS
  Slots <- Slots2
  Types <- TypesA
  ExtChoices <- Ext2
  Vals = {0, 1}
  MaxOps = 4
  AssignImpl = "pinned"
  WM = 8
  ConstructSlots <- Slots2
  Unbounded = FALSE
  Canon = FALSE
  LinK = 0
  ViewIds <- NoViews
  Ops <- AllOps
INVARIANTS TypeOK Refines NoAlias NoUseAfterFree NoDoubleFree NoLeak ConfigKept RoundTrip
PROPERTIES SourceUnchanged
CHECK_DEADLOCK FALSE
