SPECIFICATION Spec
CONSTANTS
  NSample = 12
  Seed = 1
  CoverStride = 2
INVARIANTS Evaluable OuterLaw LatticeLaw
POSTCONDITION EmitCases
CHECK_DEADLOCK FALSE
