SPECIFICATION Spec
CONSTANTS
  NSample = 12
  Seed = 1
  CoverStride = 2
  FullDepth3 = FALSE
INVARIANTS Evaluable OuterLaw LatticeLaw BoundaryLaw
POSTCONDITION EmitCases
CHECK_DEADLOCK FALSE
