SPECIFICATION Spec
CONSTANTS
  NThreads = 2
  LayoutsUsed <- LayoutsAll
  Interps <- InterpsAll
  ExtT <- ExtA
  WM = 8
  MaxWriters = 2
INVARIANTS RaceFree InBounds Deterministic
PROPERTIES Terminates
CHECK_DEADLOCK FALSE
