---------------------------- MODULE Trace_Algebra ----------------------------
(* Trace validation of products computed by the real covfie::algebra on      *)
(* random integer operands beyond the enumerated ones: TLC recomputes them.  *)
EXTENDS Algebra, TLC, Json, IOUtils

Log == ndJsonDeserialize(IOEnv.VF_TRACE)
VARIABLES l
tvars == <<l>>
TInit == l = 1
IsEvent(e) == l <= Len(Log) /\ Log[l].e = e /\ l' = l + 1

TPair == /\ IsEvent("pair")
         /\ Log[l].AB = Compose(Log[l].A, Log[l].B)
         /\ Log[l].ABv = Apply(Log[l].A, Apply(Log[l].B, Log[l].v))
         /\ Log[l].layer = Apply(Log[l].A, Log[l].v)

TChain == /\ IsEvent("chain")
          /\ LET M == Log[l].Ms IN
               /\ Log[l].prod = Compose(Compose(Compose(M[1], M[2]), M[3]), M[4])
               /\ Log[l].r = Apply(M[1], Apply(M[2], Apply(M[3], Apply(M[4], Log[l].v))))

TNext == TPair \/ TChain
TSpec == TInit /\ [][TNext]_tvars
Accepted == IF TLCGet("stats").diameter - 1 = Len(Log)
            THEN TRUE
            ELSE /\ PrintT(<<"TRACE-REJECTED matched-prefix", TLCGet("stats").diameter - 1, "of", Len(Log)>>)
                 /\ FALSE
=============================================================================
