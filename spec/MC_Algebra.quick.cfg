SPECIFICATION Spec
CONSTANTS
  Entries <- EntQ
  VecEntries <- VecQ
  NSample <- SampleQ
  Seed = 1
INVARIANTS FunctionLaw ComposeLaw ChainLaw FactoryLaw
POSTCONDITION EmitCases
CHECK_DEADLOCK FALSE
