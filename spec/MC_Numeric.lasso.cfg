\* expected to FAIL: above 2^(W-1) the doubling loop wraps to 0 and never exits (why C18 bounds the domain)
SPECIFICATION Spec
CONSTANTS
  W = 8
  Prog = "round_pow2"
  RpInputs <- RpAbove
  IpBases <- None
  IpExps <- None
INVARIANTS TypeOK
PROPERTIES Terminates
CHECK_DEADLOCK FALSE
