---------------------------- MODULE Trace_NdMap ----------------------------
(* Trace validation of executions of the real nd_map: every `Visit' event  *)
(* must name a tuple inside the box that has not been visited before, and  *)
(* at `End' the whole box must have been visited.  Order-free on purpose.  *)
EXTENDS Naturals, Sequences, FiniteSets, TLC, Json, IOUtils, FiniteSetsExt

Log == ndJsonDeserialize(IOEnv.VF_TRACE)

VARIABLES l, s, visited
vars == <<l, s, visited>>

Product(q) == FoldFunction(LAMBDA a, b: a * b, 1, q)
InBox(t, q) == Len(t) = Len(q) /\ \A k \in 1..Len(q) : t[k] >= 0 /\ t[k] < q[k]

Init == l = 1 /\ s = <<>> /\ visited = {}

IsEvent(e) == l <= Len(Log) /\ Log[l].e = e /\ l' = l + 1

TBegin == /\ IsEvent("Begin")
          /\ (IF l = 1 THEN TRUE ELSE Log[l - 1].e \in {"End", "Stopped"})
          /\ s' = Log[l].ext /\ visited' = {}

TVisit == /\ IsEvent("Visit")
          /\ LET t == Log[l].t IN
               /\ InBox(t, s)
               /\ t \notin visited
               /\ visited' = visited \cup {t}
          /\ UNCHANGED s

TEnd == /\ IsEvent("End")
        /\ Cardinality(visited) = Product(s)
        /\ UNCHANGED <<s, visited>>

\* a traversal of a box too large to finish, stopped by the callback after k invocations: nd_map must not have returned by
\* itself, and the k invocations (each checked by TVisit) named k distinct tuples of the box
TStopped == /\ IsEvent("Stopped")
            /\ Log[l].returned = FALSE
            /\ Log[l].k > 0 /\ Cardinality(visited) = Log[l].k
            /\ UNCHANGED <<s, visited>>

Next == TBegin \/ TVisit \/ TEnd \/ TStopped
Spec == Init /\ [][Next]_vars

Accepted == IF TLCGet("stats").diameter - 1 = Len(Log) /\ Log[Len(Log)].e \in {"End", "Stopped"}
            THEN TRUE
            ELSE /\ PrintT(<<"TRACE-REJECTED matched-prefix", TLCGet("stats").diameter - 1, "of", Len(Log)>>)
                 /\ FALSE
=============================================================================
