------------------------------- MODULE NdMap -------------------------------
(***************************************************************************)
(* covfie::utility::nd_map (lib/core/covfie/core/utility/nd_map.hpp).      *)
(*                                                                         *)
(* Two formulations that TLC proves equivalent on the bounded domain:      *)
(*   Visits(s)  - the recursion exactly as coded: peel the first extent,   *)
(*                recurse on the tail, prepend the peeled index;           *)
(*   the state machine (Init/Next) - the loop nest that the recursion      *)
(*                unfolds to, one action per loop test and one `Call'      *)
(*                action per callback invocation.                          *)
(* The property (C19) is a history property of `Call': every tuple of the  *)
(* box is passed to the callback exactly once and no other tuple is.       *)
(* Order of visits is NOT part of the property; the conformance checks     *)
(* therefore compare multisets / use the order-free trace spec.            *)
(***************************************************************************)
EXTENDS Naturals, Sequences, FiniteSets, TLC, SequencesExt, FiniteSetsExt, Json, IOUtils, NdMapFn

CONSTANTS MaxDim,      \* dimensionalities 1..MaxDim
          ExtBound     \* function: dimension |-> largest extent enumerated (extents 0..ExtBound[n])

QuickExt    == <<4, 4, 4, 3, 2>>
ThoroughExt == <<12, 8, 5, 4, 3>>

ExtentVectors == UNION {[1..n -> 0..ExtBound[n]] : n \in 1..MaxDim}

Product(s) == FoldFunction(LAMBDA a, b: a * b, 1, s)

Box(s) == {t \in [1..Len(s) -> 0..(Max({s[k] : k \in 1..Len(s)} \cup {0}))] :
              \A k \in 1..Len(s) : t[k] < s[k]}

\* the recursion as coded: Visits(s), in NdMapFn

NoDup(q) == \A a, b \in 1..Len(q) : q[a] = q[b] => a = b

\* laws of the functional form (checked as an invariant over all extent vectors)
VisitLaw(s) == LET v == Visits(s) IN
  /\ NoDup(v)
  /\ ToSet(v) = Box(s)
  /\ Len(v) = Product(s)

\* the loop nest as a state machine -------------------------------------------
VARIABLES s,      \* the extent vector being iterated
          ctr,    \* loop counters, one per dimension
          d,      \* loop level whose test is next (1..N); 0 = returned
          log     \* sequence of tuples handed to the callback so far

vars == <<s, ctr, d, log>>
N == Len(s)

Init == /\ s \in ExtentVectors
        /\ ctr = [k \in 1..Len(s) |-> 0]
        /\ d = 1
        /\ log = <<>>

\* loop test at level d succeeds and it is the innermost level: invoke the callback
Call == /\ d = N /\ d > 0 /\ ctr[d] < s[d]
        /\ log' = Append(log, ctr)
        /\ ctr' = [ctr EXCEPT ![d] = @ + 1]
        /\ UNCHANGED <<s, d>>

\* loop test at level d < N succeeds: enter the recursive call on the tail
Descend == /\ d > 0 /\ d < N /\ ctr[d] < s[d]
           /\ d' = d + 1
           /\ ctr' = [ctr EXCEPT ![d + 1] = 0]
           /\ UNCHANGED <<s, log>>

\* loop at level d is exhausted: return to the caller, which increments its counter
Ascend == /\ d > 0 /\ ctr[d] >= s[d]
          /\ IF d = 1 THEN d' = 0 /\ ctr' = ctr
                      ELSE d' = d - 1 /\ ctr' = [ctr EXCEPT ![d - 1] = @ + 1]
          /\ UNCHANGED <<s, log>>

Next == Call \/ Descend \/ Ascend
Spec == Init /\ [][Next]_vars /\ WF_vars(Next)

TypeOK == /\ d \in 0..N
          /\ \A k \in 1..N : ctr[k] \in 0..s[k]

\* safety: nothing outside the box, nothing twice -- in every reachable state
OnlyInBoxOnce == NoDup(log) /\ ToSet(log) \subseteq Box(s)

\* at return: everything visited, and the loop nest agrees with the recursion
AtReturn == d = 0 => /\ ToSet(log) = Box(s)
                     /\ Len(log) = Product(s)
                     /\ log = Visits(s)
                     /\ VisitLaw(s)

\* action property: a callback invocation always passes a fresh tuple of the box
FreshCalls == [][Len(log') > Len(log) =>
                   /\ log' = Append(log, log'[Len(log')])
                   /\ log'[Len(log')] \in Box(s) \ ToSet(log)]_vars

Terminates == <>(d = 0)

\* case emission for the spec -> code replay: one JSON line per extent vector
CaseOf(e) == [ext |-> e, count |-> Product(e), box |-> SetToSeq(Box(e))]
EmitCases == ndJsonSerialize(IOEnv.VF_OUT, SetToSeq({CaseOf(e) : e \in ExtentVectors}))
=============================================================================
