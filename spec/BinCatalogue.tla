----------------------------- MODULE BinCatalogue -----------------------------
(***************************************************************************)
(* The catalogue of stack types and instances shared by BinFormatMC (C06,    *)
(* C07) and Reader (C08).                                                    *)
(* A catalogue of stack types covering every serialisable layer (array,     *)
(* constant, identity, row-major, Morton, Hilbert, clamp, out-of-range      *)
(* default, affine, permutation, cast, dereference, both interpolators,     *)
(* depth 1..5), each instantiated with several value sets drawn from        *)
(* alphabets that contain signed zeros, subnormals, infinities, quiet and   *)
(* signalling NaN payloads, values that need rounding when narrowed.        *)
(* One TLC state per (instance) or (instance, reading type) pair.           *)
(***************************************************************************)
EXTENDS BinFormat, TLC, Json, IOUtils

CONSTANTS NVal,     \* value sets per type
          Seed

\* ---- layer type constructors (placeholders for the values keep records uniform)
Arr(w, m) == [k |-> "array", w |-> w, m |-> m, count |-> 0, data |-> <<>>]
Str(kind, n) == [k |-> kind, n |-> n, cfg |-> <<>>]
Aff(n, cw) == [k |-> "affine", n |-> n, cw |-> cw, cfg |-> <<>>]
Clp(n, cw) == [k |-> "clamp", n |-> n, cw |-> cw, cfg |-> <<>>]
Bkp(n, cw, m, ow) == [k |-> "backup", n |-> n, cw |-> cw, m |-> m, ow |-> ow, cfg |-> <<>>]
Con(m, ow) == [k |-> "constant", m |-> m, ow |-> ow, cfg |-> <<>>]
Idn == [k |-> "identity", cfg |-> <<>>]
Tr(kind) == [k |-> kind]

\* The catalogue.  The harness has the C++ type for every index (harness/h_io.cpp, same order).
TypeCat == <<
  (* 1*) <<Arr(2, 1)>>,
  (* 2*) <<Arr(4, 3)>>,
  (* 3*) <<Str("strided", 2), Arr(2, 1)>>,
  (* 4*) <<Str("strided", 2), Arr(4, 1)>>,
  (* 5*) <<Aff(3, 2), Tr("nearest"), Str("strided", 3), Arr(2, 3)>>,
  (* 6*) <<Aff(3, 2), Tr("linear"), Str("strided", 3), Arr(2, 3)>>,
  (* 7*) <<Aff(3, 2), Tr("linear"), Str("strided", 3), Arr(4, 3)>>,
  (* 8*) <<Str("morton", 2), Arr(2, 2)>>,
  (* 9*) <<Str("hilbert", 2), Arr(4, 1)>>,
  (*10*) <<Clp(2, 4), Str("strided", 2), Arr(2, 1)>>,
  (*11*) <<Bkp(2, 4, 1, 2), Str("strided", 2), Arr(2, 1)>>,
  (*12*) <<Con(3, 2)>>,
  (*13*) <<Idn>>,
  (*14*) <<Tr("cast"), Con(3, 2)>>,
  (*15*) <<Tr("deref"), Str("strided", 1), Arr(2, 2)>>,
  (*16*) <<Tr("shuffle"), Str("strided", 2), Arr(2, 1)>>,
  (*17*) <<Clp(2, 2), Aff(2, 2), Tr("linear"), Str("morton", 2), Arr(2, 2)>>,
  (*18*) <<Clp(2, 2), Aff(2, 2), Tr("nearest"), Str("morton", 2), Arr(4, 2)>>,
  (*19*) <<Aff(1, 4), Tr("nearest"), Str("strided", 1), Arr(4, 1)>>,
  (*20*) <<Bkp(1, 2, 2, 2), Tr("linear"), Str("strided", 1), Arr(2, 2)>>,
  \* configurations larger than 64 bytes (96 and 80): anything that reads or writes a configuration in pieces shows here
  (*21*) <<Aff(3, 4), Tr("nearest"), Str("strided", 3), Arr(2, 1)>>,
  (*22*) <<Aff(4, 2), Tr("linear"), Str("strided", 4), Arr(2, 1)>>
>>
NTypes == Len(TypeCat)

\* ---- value alphabets (16-bit limbs, little endian)
F32Special == << <<0, 0>>, <<0, 32768>>, <<1, 0>>, <<65535, 127>>, <<0, 32640>>, <<0, 65408>>, <<1, 32704>>, <<1, 32672>>,
                 <<65535, 32639>>, <<0, 16256>>, <<0, 49184>>, <<4059, 16457>> >>
   \* +0, -0, min subnormal, max subnormal, +inf, -inf, qNaN payload 1, sNaN payload 1, max finite, 1.0, -2.5, 3.14159274
F64Special == << <<0, 0, 0, 0>>, <<0, 0, 0, 32768>>, <<1, 0, 0, 0>>, <<0, 0, 0, 32752>>, <<0, 0, 0, 65520>>, <<1, 0, 0, 32760>>,
                 <<1, 0, 0, 32756>>, <<11544, 21572, 8699, 16393>>, <<0, 0, 0, 16368>>, <<65535, 65535, 65535, 32751>> >>
   \* +0, -0, min subnormal, +inf, -inf, qNaN, sNaN, pi, 1.0, max finite double
F32Finite == << <<0, 0>>, <<0, 32768>>, <<1, 0>>, <<65535, 127>>, <<65535, 32639>>, <<0, 16256>>, <<0, 49184>>, <<4059, 16457>>,
                <<0, 128>>, <<52429, 15820>> >>
   \* ... min normal, 0.1f
F64Finite == << <<0, 0, 0, 0>>, <<0, 0, 0, 32768>>, <<11544, 21572, 8699, 16393>>, <<0, 0, 0, 16368>>, <<39322, 39321, 39321, 16313>>,
                <<0, 0, 4096, 16368>>, <<0, 0, 12288, 16368>>, <<1, 0, 4096, 16368>>, <<0, 0, 0, 14352>>, <<0, 0, 8192, 14096>>,
                <<0, 0, 0, 13970>>, <<0, 57344, 65535, 18415>> >>
   \* +0, -0, pi, 1.0, 0.1, 1+2^-24 (tie: even), 1+3*2^-24 (tie: odd), just above a tie, 2^-126 (min normal float),
   \* 1.5*2^-142 (float subnormal range), 2^-149 region, max float
Mix(h) == ((h % 46337) * (h % 46337) + 12345) % 46337
Rnd(a, b, c) == Mix(Mix((a * 7919) + (b * 10473) + (c * 2731) + ((Seed % 1000) * 3137)) + (a * 131) + (b * 17) + c)
Pick(alphabet, a, b, c) == alphabet[(Rnd(a, b, c) % Len(alphabet)) + 1]

\* scalar of width w (limbs) for value set v: even value sets use the finite alphabets (usable across widths)
Scalar(w, tid, v, pos) ==
  IF w = 2 THEN (IF v % 2 = 0 THEN Pick(F32Finite, tid, v, pos) ELSE Pick(F32Special, tid, v, pos))
  ELSE (IF v % 2 = 0 THEN Pick(F64Finite, tid, v, pos) ELSE Pick(F64Special, tid, v, pos))
\* configuration scalars: floating coordinates use the finite alphabets, size_t coordinates small integers
CfgScalar(cw, coordIsInt, tid, v, pos) ==
  IF coordIsInt THEN <<Rnd(tid, v, pos) % 7, 0, 0, 0>>
  ELSE IF cw = 2 THEN Pick(F32Finite, tid, v + 100, pos) ELSE Pick(F64Finite, tid, v + 100, pos)

LargeV == 4            \* value set 4 of the types in LargeTypes has more than 256 cells (block-wise readers, long payloads)
LargeTypes == {3, 4, 6, 7}
EmptyV == 5            \* value set 5 of the types in EmptyTypes has NO cells (a zero extent / an empty array)
EmptyTypes == {1, 3, 8}
Sizes(n, tid, v) == IF v = LargeV /\ tid \in LargeTypes THEN (IF n = 2 THEN <<17, 19>> ELSE <<7, 6, 8>>)
                    ELSE IF v = EmptyV /\ tid \in EmptyTypes THEN [i \in 1..n |-> IF i = 1 THEN 0 ELSE 2]
                    ELSE [i \in 1..n |-> 1 + (Rnd(tid, v, 50 + i) % 2) + (IF i = 1 THEN v % 2 ELSE 0)]     \* extents 1..3
Product(s) == IF Len(s) = 0 THEN 1 ELSE IF Len(s) = 1 THEN s[1] ELSE IF Len(s) = 2 THEN s[1] * s[2] ELSE IF Len(s) = 3 THEN s[1] * s[2] * s[3]
              ELSE s[1] * s[2] * s[3] * s[4]
Pow2Ceil(x) == IF x <= 1 THEN 1 ELSE IF x <= 2 THEN 2 ELSE 4      \* (round_pow2(0) = 1 as coded)
StorageCount(kind, s) == IF kind = "strided" THEN Product(s)
                         ELSE LET mx == IF Len(s) = 1 THEN s[1] ELSE IF s[1] >= s[2] THEN s[1] ELSE s[2] IN
                              IF Len(s) = 1 THEN Pow2Ceil(mx) ELSE Pow2Ceil(mx) * Pow2Ceil(mx)

\* fill a type with values
RECURSIVE Fill(_, _, _, _, _)
Fill(T, tid, v, pos, count) ==     \* count: cells the innermost array must have (set by the storage-order layer above it)
  IF T = <<>> THEN <<>>
  ELSE LET t == Head(T) IN
    IF t.k \in Transparent \/ t.k = "identity" THEN <<t>> \o Fill(Tail(T), tid, v, pos + 1, count)
    ELSE IF t.k = "array" THEN
         <<[t EXCEPT !.count = count, !.data = [i \in 1..(count * t.m) |-> Scalar(t.w, tid, v, pos * 64 + i)]]>>
    ELSE IF t.k = "constant" THEN
         <<[t EXCEPT !.cfg = Flatten([i \in 1..t.m |-> Scalar(t.ow, tid, v, pos * 64 + i)])]>>
    ELSE IF t.k \in {"strided", "morton", "hilbert"} THEN
         LET s == Sizes(t.n, tid, v) IN
         <<[t EXCEPT !.cfg = Flatten([i \in 1..t.n |-> U64(s[i])])]>> \o Fill(Tail(T), tid, v, pos + 1, StorageCount(t.k, s))
    ELSE IF t.k = "affine" THEN
         <<[t EXCEPT !.cfg = Flatten([i \in 1..(t.n * (t.n + 1)) |-> CfgScalar(t.cw, FALSE, tid, v, pos * 64 + i)])]>>
         \o Fill(Tail(T), tid, v, pos + 1, count)
    ELSE IF t.k = "clamp" THEN
         <<[t EXCEPT !.cfg = Flatten([i \in 1..(2 * t.n) |-> CfgScalar(t.cw, t.cw = 4 /\ Tail(T)[1].k = "strided", tid, v, pos * 64 + i)])]>>
         \o Fill(Tail(T), tid, v, pos + 1, count)
    ELSE \* backup
         <<[t EXCEPT !.cfg = Flatten([i \in 1..(2 * t.n) |-> CfgScalar(t.cw, t.cw = 4 /\ Tail(T)[1].k = "strided", tid, v, pos * 64 + i)])
                             \o Flatten([i \in 1..t.m |-> Scalar(t.ow, tid, v, pos * 64 + 40 + i)])]>>
         \o Fill(Tail(T), tid, v, pos + 1, count)

Inst(tid, v) == Fill(TypeCat[tid], tid, v, 1, IF v = EmptyV THEN 0 ELSE 2 + (v % 2))     \* a bare array gets 2 or 3 cells (0 in the empty set)
Instances == {<<tid, v>> : tid \in 1..NTypes, v \in 1..NVal} \cup {<<tid, LargeV>> : tid \in LargeTypes} \cup {<<tid, EmptyV>> : tid \in EmptyTypes}
=============================================================================
