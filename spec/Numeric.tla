------------------------------ MODULE Numeric ------------------------------
(***************************************************************************)
(* covfie::utility::round_pow2 and covfie::utility::ipow                   *)
(* (lib/core/covfie/core/utility/numeric.hpp) at an unsigned width W with  *)
(* wrap-around arithmetic, written as the loops the code runs:             *)
(*                                                                         *)
(*   round_pow2(i): j = 1; while (j < i) j *= 2; return j;                 *)
(*   ipow(i, p):    r = 1; for (; p; p >>= 1) { if (p & 1) r *= i;         *)
(*                                               i *= i; } return r;       *)
(*                                                                         *)
(* One action per loop iteration, one per loop exit.  TLC checks partial   *)
(* correctness at `done', termination under weak fairness on the stated    *)
(* domain, and (separate configuration) exhibits the non-terminating lasso *)
(* of round_pow2 above 2^(W-1), which is why C18 bounds the domain.        *)
(***************************************************************************)
EXTENDS Naturals, Sequences, FiniteSets, TLC, Json, IOUtils, SequencesExt, NumericFn

CONSTANTS W,         \* width in bits (W <= 16: products are split so that TLC's 32-bit integers suffice)
          Prog,      \* "round_pow2" | "ipow" | "both"
          RpInputs,  \* inputs of round_pow2 explored
          IpBases,   \* bases of ipow explored
          IpExps     \* exponents of ipow explored

M == 2 ^ W

RpDomain == 0..(2 ^ (W - 1))       \* the domain C18 states (0 included: terminates with 1)
RpAbove  == (2 ^ (W - 1) + 1)..(M - 1)  \* where the doubling loop wraps to 0 and never exits
AllW     == 0..(M - 1)
None     == {}
IpSampleBases == {0, 1, 2, 3, 5, 7, 10, 255, 256, 257, 4095, 4096, 65521, 65534, 65535} \cap AllW
IpSampleExps  == ((0..40) \cup {63, 64, 65, 255, 256, 1000, 4095, 65535}) \cap AllW

\* (a * b) mod 2^W without leaving 31 bits (a, b < 2^16)
MulMod(a, b) == (((a % 256) * b) + ((((a \div 256) * b) % 256) * 256)) % M

\* reference definitions ("textbook") ------------------------------------------
IsPow2(n) == \E k \in 0..W : n = 2 ^ k
LeastPow2Geq(i) == CHOOSE n \in {2 ^ k : k \in 0..W} : n >= i /\ \A m \in {2 ^ k : k \in 0..W} : m >= i => n <= m

\* b^e mod 2^W by e successive multiplications (FoldLeft is evaluated iteratively by TLC)
PowModRef(b, e) == FoldLeft(LAMBDA a, k : MulMod(a, b), 1 % M, [k \in 1..e |-> k])
PowMod(b, e) == PowModRef(b, e)

\* functional forms of the loops as coded live in NumericFn (used by Layout for storage sizes)

\* the loops as state machines --------------------------------------------------
VARIABLES prog, pc, x, y, acc, x0, y0
vars == <<prog, pc, x, y, acc, x0, y0>>

InitRP == /\ prog = "round_pow2" /\ pc = "loop"
          /\ x0 \in RpInputs /\ y0 = 0 /\ x = x0 /\ y = 0 /\ acc = 1

InitIP == /\ prog = "ipow" /\ pc = "loop"
          /\ x0 \in IpBases /\ y0 \in IpExps /\ x = x0 /\ y = y0 /\ acc = 1 % M

Init == \/ (Prog \in {"round_pow2", "both"} /\ InitRP)
        \/ (Prog \in {"ipow", "both"} /\ InitIP)

RP_Step == /\ prog = "round_pow2" /\ pc = "loop" /\ acc < x
           /\ acc' = (2 * acc) % M
           /\ UNCHANGED <<prog, pc, x, y, x0, y0>>

RP_Exit == /\ prog = "round_pow2" /\ pc = "loop" /\ ~(acc < x)
           /\ pc' = "done"
           /\ UNCHANGED <<prog, x, y, acc, x0, y0>>

IP_Step == /\ prog = "ipow" /\ pc = "loop" /\ y # 0
           /\ acc' = (IF y % 2 = 1 THEN MulMod(acc, x) ELSE acc)
           /\ x' = MulMod(x, x)
           /\ y' = y \div 2
           /\ UNCHANGED <<prog, pc, x0, y0>>

IP_Exit == /\ prog = "ipow" /\ pc = "loop" /\ y = 0
           /\ pc' = "done"
           /\ UNCHANGED <<prog, x, y, acc, x0, y0>>

Next == RP_Step \/ RP_Exit \/ IP_Step \/ IP_Exit
Spec == Init /\ [][Next]_vars /\ WF_vars(Next)

TypeOK == acc \in 0..(M - 1) /\ x \in 0..(M - 1) /\ y \in 0..(M - 1)

\* partial correctness at loop exit
RP_Correct == (prog = "round_pow2" /\ pc = "done" /\ x0 >= 1 /\ x0 <= 2 ^ (W - 1)) =>
                 /\ IsPow2(acc)
                 /\ acc >= x0
                 /\ (acc = 1 \/ acc \div 2 < x0)
                 /\ acc = LeastPow2Geq(x0)
                 /\ acc = RoundPow2(x0)

\* loop invariant of round_pow2 (the accumulator is a power of two below 2*x0, or has wrapped to 0)
RP_LoopInv == prog = "round_pow2" => (acc = 0 \/ IsPow2(acc))

IP_Correct == (prog = "ipow" /\ pc = "done") =>
                 /\ acc = PowMod(x0, y0)
                 /\ (x0 <= 6 /\ y0 <= 6 => IPow(x0, y0) % M = acc)   \* functional form agrees (small arguments: no 32-bit overflow in TLC)

\* loop invariant of square-and-multiply: acc * x^y = x0^y0 (mod 2^W)
IP_LoopInv == prog = "ipow" => MulMod(acc, PowMod(x, y)) = PowMod(x0, y0)

Terminates == <>(pc = "done")

\* case emission -----------------------------------------------------------------
EmitCases ==
  LET ri == SetToSeq(RpInputs \cap (1..(2 ^ (W - 1))))
      bs == SetToSeq(IpBases)
      es == SetToSeq(IpExps)
  IN TLCGet("stats").generated >= 0 /\ ndJsonSerialize(IOEnv.VF_OUT,
       <<[kind |-> "round_pow2", w |-> W, inputs |-> ri,
          outputs |-> [k \in 1..Len(ri) |-> LeastPow2Geq(ri[k])]]>>
       \o [k \in 1..Len(bs) |->
             [kind |-> "ipow", w |-> W, base |-> bs[k], exps |-> es,
              pows |-> [n \in 1..Len(es) |-> PowMod(bs[k], es[n])]]])
=============================================================================
