SPECIFICATION Spec
INVARIANTS RoundTripLaw TieLaw SignLaw ExactLaw
POSTCONDITION EmitCases
CHECK_DEADLOCK FALSE
