SPECIFICATION TSpec
CONSTANTS
  Slots <- Slots3
  Types <- TypesB
  ExtChoices <- ExtMix
  Vals = {0, 1}
  MaxOps = 80
  AssignImpl = "fixed"
  WM = 12
  ConstructSlots <- Slots3
  Unbounded = FALSE
  Canon = FALSE
  LinK = 0
  ViewIds <- Views2
  Ops <- AllOps
INVARIANTS Refines NoAlias NoUseAfterFree NoDoubleFree NoLeak ViewsValid ViewsSeeOwner
POSTCONDITION Accepted
CHECK_DEADLOCK FALSE
