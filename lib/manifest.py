#!/usr/bin/env python3
"""Regenerates /verif/MANIFEST.json from the table below (single source of truth for the interface)."""
import json
import os

ROOT = os.path.dirname(os.path.dirname(os.path.abspath(__file__)))

# id -> (category, technique, level text, level note, design ref)
CHECKS = {
    "C19": ("model_checking",
            "TLA+ state machine of the loop nest checked by TLC + TLC-emitted cases replayed on nd_map + trace validation of real callback histories",
            "TLC exhausts the nd_map loop-nest machine for all extent vectors (dims 1..5, extents 0..B) and proves the recursion-as-coded equal to it; the implementation is bound by replaying every enumerated vector and by validating recorded Visit histories of random larger vectors against the order-free trace spec.",
            "Trusted: TLC, CommunityModules Json/IOUtils, g++ 12, the ndjson projection in harness/h_ndmap.cpp. Dimension 0 cannot be instantiated with covfie::array and is not covered.",
            "DESIGN.md section 4, C19"),
}

NOT_YET = {}


def main():
    props = [json.loads(l) for l in open(os.path.join(ROOT, "properties.jsonl"))]
    checks = []
    na = []
    for p in props:
        pid = p["id"]
        if pid in CHECKS:
            cat, tech, text, note, ref = CHECKS[pid]
            checks.append({
                "property_id": pid,
                "quick_cmd": "bin/check %s quick" % pid,
                "thorough_cmd": "bin/check %s thorough" % pid,
                "evidence_file": "/verif/evidence/%s.json" % pid,
                "replay_cmd_template": "bin/check %s --replay {path}" % pid,
                "engine": "tla-mbt",
                "level_claimed": {"category": cat, "text": text, "design_ref": ref},
                "level_note": note,
                "technique": tech,
            })
        else:
            na.append({"property_id": pid, "reason": NOT_YET.get(pid, "check under construction in this round: specification module and conformance harness not committed yet (planned per DESIGN.md section 4)")})
    m = {
        "version": 1,
        "setup_cmd": "bin/setup",
        "hooks": {
            "guard": "COVFIE_VERIF",
            "enable": "no source hooks are needed: harness programs are compiled with -DCOVFIE_VERIF against /repo/lib and observe the library through its public API, replaced global operator new/delete and a probe backend defined in the harness",
            "baseline_off_cmd": "cmake --build /repo/_build && /repo/_build/tests/core/test_core && /repo/_build/tests/cpu/test_cpu",
            "source_commits": [],
            "add_only": True,
        },
        "engines": [{
            "name": "tla-mbt", "path": "bin/check",
            "serves_properties": [c["property_id"] for c in checks],
            "kind_free_text": "explicit TLA+ specifications in spec/ checked by TLC (E1), TLC-generated cases/behaviours replayed on the real library (E2), traces recorded from the real library validated by TLC trace specifications (E3)",
        }],
        "checks": checks,
        "not_applicable": na,
        "notes": "Exit 2 from a check means infrastructure/model failure, never a property verdict. Genuine defects repaired in /repo are listed as 'fixed:' lines in KNOWN_FINDINGS.txt.",
    }
    json.dump(m, open(os.path.join(ROOT, "MANIFEST.json"), "w"), indent=1)
    print("MANIFEST.json: %d checks, %d not_applicable" % (len(checks), len(na)))


if __name__ == "__main__":
    main()
