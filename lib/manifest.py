#!/usr/bin/env python3
"""Regenerates /verif/MANIFEST.json from the table below (single source of truth for the interface)."""
import json
import os

ROOT = os.path.dirname(os.path.dirname(os.path.abspath(__file__)))

# id -> (category, technique, level text, level note, design ref)
CHECKS = {
    "C16": ("model_checking",
            "TLA+ model of threads as interleaved single-cell accesses checked by TLC over all schedules + TLC-enumerated thread programs run on real threads + ThreadSanitizer stress runs",
            "TLC explores every interleaving of 2 (quick) or 3 (thorough) threads, each performing lookups expanded into the single-cell reads of their footprint and writes to disjoint logical coordinates, over every storage order and interpolator, and checks RaceFree, InBounds and Deterministic; the programs are run on real threads released together and compared with the specification's sequential results, and T in {2,4,8,16} threads with shared and per-thread views (also through the coordinate-mapping layers clamp, out-of-range default, permutation and an affine layer, above and beneath an interpolator) run under ThreadSanitizer with per-thread digests equal to the sequential run.",
            "The no-hidden-shared-state premise (no static, mutable or thread-local state behind at()) is monitored by ThreadSanitizer on the executions performed, not proved. Trusted: TLC, g++ 12, TSan runtime.",
            "DESIGN.md section 4, C16"),
    "C02": ("model_checking",
            "TLA+ denotation Eval (one clause per layer, mentioning only its own configuration and Eval of the rest) checked by TLC over an enumerated program space + one generated C++ program per stack compared exactly with Eval",
            "TLC enumerates stacks from the layer grammar (one per grammar-adjacent pair of layer kinds with N and M rotating independently over 1..4, plus seeded stacks to depth 5; thorough: additionally every stack of the grammar to depth 3, about 4 800), checks well-kindedness, definedness and the one-line law of the outermost layer, and emits every stack with the values Eval prescribes at every in-domain coordinate of a dyadic grid; each stack becomes a translation unit that builds the real stack with pairwise distinct configuration values and compares both lookup forms exactly, under assertions + ASan/UBSan.",
            "Trusted: TLC, g++ 12, lib/gen_stack.py (descriptor to C++ type), harness/stack_common.hpp. The program space is covered pairwise + sampled, not exhaustively; interpolators sit over integer-coordinate backends as the grammar states.",
            "DESIGN.md section 4, C02"),
    "C13": ("exploration",
            "program-space exploration driven by the TLA+ kind system: TLC enumerates well-kinded and ill-kinded stacks, each becomes a generated translation unit exercising the whole field API (must compile and run clean) or must be rejected by the compiler",
            "Stack!WellKinded is the library's kind system written down once; StackMC enumerates well-kinded stacks (pairwise adjacency cover, seeded depth <= 5, helper chains to depth 10) and one ill-kinded stack per stated rule; the generated program asserts the backend concept and trivially copyable views and uses parameter-pack construction, default construction, views, both lookup forms, copy/move construction and assignment, configuration/backend accessors, conversion from a compatible stack, dump and load; g++ and the sanitised run are the judges.",
            "Exploration, not exhaustive enumeration of all stacks of depth <= 5. cuda_device_array is compiled and run against a host shim of the CUDA runtime (reduced assurance); cuda_texture is not compiled. Stack!ViewBytesUp is an upper bound of the view size (members rounded up to 8 per layer); well-kinded stacks have a bound of at most 256 bytes, the library's limit, and stacks exactly on the limit are always generated.",
            "DESIGN.md section 4, C13"),
    "C17": ("model_checking",
            "TLA+ Configs (i-th configuration belongs to the i-th layer) over TLC-enumerated stacks and helper chains + generated programs reading configurations back, rebuilding and using the positional helper",
            "For every enumerated stack (pairwise distinct configuration values; chains of depth 2..10 whose adjacent layers share a configuration type but not its value) the generated program walks get_backend() on owning and non-owning data with statically checked types, compares every get_configuration() with the argument it was built from, rebuilds a field from the reported configurations and storage and compares it at every query, and builds through make_parameter_pack_for comparing every layer.",
            "Trusted: TLC, g++ 12, lib/gen_stack.py. Configuration values are small integers (exact in every scalar type). Also: read-back and rebuild after assignment over a larger field; arrays not sized for the layer above them and arrays with 8/16-bit index types (configuration-only programs).",
            "DESIGN.md section 4, C17"),
    "C06": ("model_checking",
            "TLA+ grammar of the binary format over 16-bit limbs checked by TLC (Parse o Ser = id) + byte-exact comparison of real dumps with the specification's stream + TLC parsing dumps of random bit patterns",
            "TLC checks the round-trip and grammar laws for 22 catalogue stacks (two with configurations larger than 64 bytes) covering every serialisable layer and value sets with signed zeros, subnormals, infinities and NaN payloads; every instance is built on the real library, dumped and compared byte for byte with the stream the specification prescribes (an independent definition of the format), reloaded, compared layer by layer and bit by bit and through lookups at every coordinate, and re-dumped, in the assertion and the NDEBUG build; random bit patterns (every fifth instance scaled beyond 1024 cells and written to / read from a real file) dumped by the library are parsed independently by TLC.",
            "Trusted: TLC, g++ 12, harness/h_io.cpp (memcpy-based projection of configurations and stored scalars). Extents are 1..3 per axis plus one value set with more than 256 cells; random instances up to 2 500 cells and fields of 10^5-10^6 vectors go through real files and are judged by Trace_Golden (TDump / THuge: structure, length and sampled scalars).",
            "DESIGN.md section 4, C06"),
    "C07": ("model_checking",
            "TLA+ portability relation (same on-disk shape) and IEEE-754 widen/narrow oracle on limbs checked by TLC + every (file, reading type) pair replayed + committed golden files parsed by TLC",
            "TLC checks that a file parses under exactly the types with the same on-disk shape and that configurations are kept while values are widened exactly or narrowed to nearest-even (Float.tla, incl. ties and subnormal results); every pair is replayed on the real loader and compared with the specification's Retype; the hardware conversions are compared with the Float oracle; 20 golden files (16 written by the pinned revision) must load, equal their manifest, re-dump to the same bytes and be accepted by TLC as sentences of the format.",
            "Trusted: TLC, g++ 12, harness/h_io.cpp, the golden files' manifest. Cross-width comparison only for finite values within float range (as stated).",
            "DESIGN.md section 4, C07"),
    "C08": ("model_checking",
            "TLA+ state machine of the loader over faulty streams checked by TLC (safety + liveness) + complete fault enumeration replayed on the real loader in forked children (assertion+ASan, NDEBUG, valgrind sample)",
            "TLC checks, for every catalogue instance in scope and every fault (writer interrupted after any limb, any header/footer/tag/width limb replaced, failure at the n-th read, incompatible reading stack), that the loader never returns or aborts and eventually throws, and that it terminates; every enumerated fault - truncation at every byte offset - is applied to the real dump and loaded by the real loader behind a fault-injecting streambuf in a forked child (also with stream exception masks enabled by the caller), the observed outcome - threw / returned / aborted / signal / hang / terminate - must be `threw` in the assertion+ASan build and the NDEBUG build, and a sample runs under valgrind to expose decisions on uninitialised data; the catalogue includes empty arrays.",
            "Trusted: TLC, g++ 12, ASan/UBSan, valgrind, fork-based outcome classification. Assumes payloads do not contain the magic words; count-word corruption is outside the property's fault list.",
            "DESIGN.md section 4, C08"),
    "C15": ("exploration",
            "TLC-generated programs (behaviours of the Lifecycle spec and in-domain lookup cases of the functional specs) executed in four build configurations under ASan/UBSan/LSan and valgrind, each compared step by step with the specification's state",
            "The randomly generated programs the property asks for are the behaviours TLC generates from spec/LifecycleGen.tla (one per transition of the abstract state graph plus seeded 30-operation simulations) and the in-domain lookup cases emitted by the Coord and Interp modules; every program runs at -O0 and -O1 with assertions under ASan+UBSan+LSan, at -O2 -DNDEBUG, and at -O2 -DNDEBUG under valgrind memcheck, and every build must reproduce the state the specification prescribes after every step (so debug and release agree with each other).",
            "Exploration, not proof: whether an execution contains UB is decided by the sanitizers, assertions and valgrind on the executions performed; TLA+ contributes the programs, the argument domain and the expected results. Trusted: TLC, g++ 12, sanitizer runtimes, valgrind 3.19.",
            "DESIGN.md section 4, C15 and section 6"),
    "C12": ("model_checking",
            "TLA+ state machine of field slots, heap blocks and a ghost array model checked by TLC + TLC-generated behaviours (one per transition, plus seeded simulations) replayed on real fields with full state comparison after every step",
            "TLC exhausts every history of construct / write / copy and move construction and assignment (incl. self-assignment) / conversion / dump / load / destroy over 2 slots (<= 5 or 6 operations) and 3 slots (<= 5) and checks Refines, NoAlias, NoUseAfterFree, NoDoubleFree, NoLeak; the implementation is bound by replaying one witness behaviour per transition of the abstract state graph and simulated 30-operation histories on real fields, comparing all values, configurations and the number of live storage blocks after every step under ASan/LSan/UBSan; in the other direction an independent seeded random driver performs 70-operation histories (incl. moving conversions and default-constructed fields) on real fields and every logged operation with the observed projection of every slot must be a step of the specification (Trace_Lifecycle).",
            "Trusted: TLC, g++ 12, ASan/LSan/UBSan, replaced operator new[]/delete[], harness/h_lifecycle.cpp. Moved-from and self-moved fields are unspecified (only destroyed or assigned to). Field types: four layouts x N in 1..4 over array<float1>. Additionally: histories of any length (finite-state unbounded mode), long-lived views with the rule for when they die, adoption of storage objects through parameter packs, lineage-split witnesses (a ghost that travels like private members) so that histories differing only in how an object came to its value are replayed, dump payload compared cell by cell, an independent random driver validated by Trace_Lifecycle.",
            "DESIGN.md section 4, C12"),
    "C05": ("model_checking",
            "TLA+ Convert action (re-layout copy in nd_map order) checked by TLC + generated conversion behaviours replayed on real fields + all ordered layout pairs and whole stacks on TLC-enumerated extents + trace validation of random extents",
            "TLC checks, for every conversion chain over the four layouts and every extent vector of the configuration (N in 1..4), that a conversion is a stuttering step on the array model (Refines), keeps the configuration, sizes the storage as the constructor computes it, leaves the source untouched and that fields with equal models agree whatever their layouts (RoundTrip); the implementation is bound by replaying one behaviour per transition and by converting every ordered layout pair there and back and whole affine<I<L<array>>> stacks on every TLC-enumerated extent vector.",
            "Trusted: TLC, g++ 12, ASan/UBSan. The CUDA device-array conversion is compiled and executed against a host shim of the CUDA runtime (harness/cuda_shim): reduced assurance, nothing is claimed about real devices.",
            "DESIGN.md section 4, C05 and section 6"),
    "C03": ("model_checking",
            "TLA+ definition of the interpolator as coded vs the tensor-product interpolant checked by TLC + emitted fields/queries replayed exactly + trace validation of random dyadic queries",
            "TLC proves on the exact (dyadic/integer) domain that the interpolator as coded (per-branch corner convention and weights) equals the textbook N-linear interpolant, is exact at lattice points, stays within the surrounding values and reads exactly the 2^N cell vertices; every enumerated field and query is replayed with exact equality for coordinate and storage precisions float/double, M in 1..4, strided and Morton storage, a clamp beneath, an N-d probe for the cells read, precision probes at 2^-20/2^-30, lattice exactness when the stored value needs narrowing (oracle Float!Narrow) and huge-magnitude values of opposite sign (homogeneity scaling by 2^127 / 2^1023); random grids are validated by Trace_Interp.",
            "Trusted: TLC, g++ 12, exactness of IEEE arithmetic on the chosen domain. Not decided: the size of the rounding error for arbitrary finite floats; lattice exactness with stored values that need narrowing is covered by C07's Float module only for IO.",
            "DESIGN.md section 4, C03 and section 6"),
    "C09": ("model_checking",
            "TLA+ integer model of covfie::algebra checked by TLC + emitted cases replayed exactly + trace validation of random integer products",
            "TLC checks that compose-as-coded (homogeneous embedding) equals textbook composition, that (A*B)v = A(Bv), that products of up to four factors associate and that the factories have their meaning; cases are replayed with exact equality on covfie::algebra in float and double and on affine<identity> views; random operands (beyond 2^24 for double) are recomputed by TLC.",
            "Trusted: TLC, g++ 12, TLAPS (AlgebraProofs: the composition law for N = 1, 2 over all integers). Not decided: bounded relative error over arbitrary finite floats (TLA+ has no floats); the exact domain separates float from double accumulation via products above 2^24 and is stretched by exactness-preserving power-of-two scalings (entries to 2^-1035, coordinates to 2^1018); products are also formed concurrently by 8 threads (TSan, and -O2 without -pthread).",
            "DESIGN.md section 4, C09 and section 6"),
    "C20": ("model_checking",
            "TLA+ transcription of the index-sequence metaprograms checked by TLC + every enumerated case compiled as a constant expression against the real templates",
            "TLC checks SortLaw, PermLaw and FilterLaw for every sequence of length <= 6 over {0..4} and every pair of length <= 4 over {0..3} (larger in the thorough tier) plus seeded longer sequences over a rank alphabet that the generator maps to values up to SIZE_MAX; each case with the specified result is compiled into generated translation units, g++ evaluating covfie's templates being the implementation under test.",
            "Trusted: TLC, g++ 12 template evaluation, lib/gen_c20.py. Large values rely on the order-only nature of the metaprograms (rank abstraction).",
            "DESIGN.md section 4, C20"),
    "C04": ("model_checking",
            "TLA+ rank-space rounding rule checked by TLC + TLC-emitted cases concretised with nextafter on the real layer + trace validation of random lookups",
            "TLC proves the rule (int/below/half/above -> allowed lattice points) equal to 'every lattice point within one half' on the rank grid; every enumerated per-axis (k, position) combination for N in 1..4 is concretised in float and double (one ulp either side of each half-integer, offsets up to 2^30) and looked up through nearest_neighbour over identity and over strided/array storage; random lookups are validated by Trace_Coord.",
            "Trusted: TLC, g++ 12, libm nextafter/floor (exact operations), harness/h_nn.cpp. An exact half may round either way. N=3,4 use a per-axis cover (the layer acts per axis).",
            "DESIGN.md section 4, C04"),
    "C10": ("model_checking",
            "TLA+ state machine of clamped lookups in rank space checked by TLC + emitted cases replayed on clamp over identity/probe/array backends under ASan",
            "TLC checks ClampSafe for every box lo<=hi (bounds incl. the type's extremes) and every coordinate rank incl. lowest/max/+-inf; TLAPS proves the per-axis laws (in box, idempotent, = median) for all integers; each enumerated case is replayed for five coordinate types (floating types also with 1-ulp-spaced values) on clamp<identity>, clamp<probe> (queried coordinate, one query) and, with wild coordinates, over array storage above and beneath an interpolator under ASan; random boxes and coordinates (type extremes, infinities, 1-step neighbours of the bounds, 64-bit aliases modulo 2^32) are abstracted to their order relation with the box and validated by Trace_Coord.",
            "Trusted: TLC, g++ 12, ASan/UBSan, harness probe backend. Order-only abstraction: clamp only compares, so an order-preserving concretisation of ranks is exact. NaN excluded (as stated).",
            "DESIGN.md section 4, C10"),
    "C11": ("model_checking",
            "TLA+ state machine with a ghost backend-query counter checked by TLC (invariant + action properties) + emitted cases replayed on backup over a counting probe backend",
            "TLC checks BackupLaw and the action properties NoQueryOutside / OneQueryInside over every box and coordinate rank; each case is replayed on backup<probe> comparing the returned value and the probe's query counter after every lookup, five coordinate types, N in 1..4; random boxes and coordinates abstracted to order relations are validated by Trace_Coord.",
            "Trusted: TLC, g++ 12, harness probe backend (harness/probe.hpp). N=3,4 by rotating per-axis cover.",
            "DESIGN.md section 4, C11"),
    "C01": ("model_checking",
            "TLA+ refinement machine (layer over array storage refines an N-d array) checked by TLC + TLC-emitted index tables replayed on the real layers under ASan + trace validation of random larger extents",
            "TLC checks Refines/InStorage/SizeLaw/Injective for every layout, N in 1..4 and every extent vector in the bound (the index maps are written as the code computes them); the implementation is bound by replaying every enumerated (extents, coordinate) on identity-backed and array-backed layers (portable and -mbmi2, assertions+ASan/UBSan) and by validating recorded index/size events of random larger extents.",
            "Trusted: TLC, CommunityModules (Json, IOUtils, Bitwise), g++ 12, ASan/UBSan, harness/h_layout.cpp projection. Coordinate-type/storage/M combinations are a rotating cover, not the full cross.",
            "DESIGN.md section 4, C01"),
    "C14": ("model_checking",
            "TLA+ definitions of the index maps as coded vs published curves checked by TLC + TLC-emitted cases replayed on the layers + trace validation on 64-bit bit sequences",
            "TLC proves, for every coordinate vector below 2^b per axis and boundary patterns, that the portable Morton loop and the mask/pdep construction equal the bit interleave, that row-major equals the Horner form, and that Hilbert xy2d-as-coded is inverted by d2xy with origin and adjacency laws (k <= 6/8); replayed on the real layers over identity<size1> and the static index functions in portable, BMI2 and NDEBUG builds; positions are also read off the storage block itself, including fields converted to row-major; coordinates up to 2^floor(64/N) (bit sequences), row-major fields beyond 2^32 cells (limb arithmetic) and Hilbert k <= 10 by trace validation (thorough: Hilbert laws exhaustively to k = 10 in TLC).",
            "Trusted: TLC, Bitwise module overrides, g++ 12. Hilbert k = 9, 10 and coordinates above the enumerated bit widths are sampled (boundary patterns + random), not exhaustive.",
            "DESIGN.md section 4, C14"),
    "C18": ("model_checking",
            "TLA+ state machines of the round_pow2 / ipow loops with wrap-around checked by TLC (safety + termination) + emitted tables replayed on uint8..uint64 + limb-arithmetic trace validation at 32/64 bits",
            "TLC exhausts both loops at W=8 (all inputs, all (b,e) pairs, loop invariants), W=12 and W=16, proves termination on the stated domain and exhibits the non-terminating lasso above it; the sizing consequence is the SizeLaw/InStorage invariant of LayoutWR; the implementation is bound by replaying the tables on the four unsigned instantiations and by validating 32/64-bit executions (8-bit limbs) and, thorough, every 32-bit input of round_pow2 per interval.",
            "Trusted: TLC, g++ 12, Limbs.tla arithmetic. ipow at 32/64 bits is sampled (boundary bases x exponents <= 130).",
            "DESIGN.md section 4, C18"),
    "C19": ("model_checking",
            "TLA+ state machine of the loop nest checked by TLC + TLC-emitted cases replayed on nd_map + trace validation of real callback histories",
            "TLC exhausts the nd_map loop-nest machine for all extent vectors (dims 1..5, extents 0..B) and proves the recursion-as-coded equal to it; the implementation is bound by replaying every enumerated vector and by validating recorded Visit histories of random larger vectors against the order-free trace spec.",
            "Trusted: TLC, CommunityModules Json/IOUtils, g++ 12, the ndjson projection in harness/h_ndmap.cpp. Dimension 0 cannot be instantiated with covfie::array and is not covered.",
            "DESIGN.md section 4, C19"),
}

NOT_YET = {}


def main():
    props = [json.loads(l) for l in open(os.path.join(ROOT, "properties.jsonl"))]
    checks = []
    na = []
    for p in props:
        pid = p["id"]
        if pid in CHECKS:
            cat, tech, text, note, ref = CHECKS[pid]
            checks.append({
                "property_id": pid,
                "quick_cmd": "bin/check %s quick" % pid,
                "thorough_cmd": "bin/check %s thorough" % pid,
                "evidence_file": "/verif/evidence/%s.json" % pid,
                "replay_cmd_template": "bin/check %s --replay {path}" % pid,
                "engine": "tla-mbt",
                "level_claimed": {"category": cat, "text": text, "design_ref": ref},
                "level_note": note,
                "technique": tech,
            })
        else:
            na.append({"property_id": pid, "reason": NOT_YET.get(pid, "check under construction in this round: specification module and conformance harness not committed yet (planned per DESIGN.md section 4)")})
    m = {
        "version": 1,
        "setup_cmd": "bin/setup",
        "hooks": {
            "guard": "COVFIE_VERIF",
            "enable": "no source hooks are needed: harness programs are compiled with -DCOVFIE_VERIF against /repo/lib and observe the library through its public API, replaced global operator new/delete and a probe backend defined in the harness",
            "baseline_off_cmd": "cmake --build /repo/_build && /repo/_build/tests/core/test_core && /repo/_build/tests/cpu/test_cpu",
            "source_commits": [],
            "add_only": True,
        },
        "engines": [{
            "name": "tla-mbt", "path": "bin/check",
            "serves_properties": [c["property_id"] for c in checks],
            "kind_free_text": "explicit TLA+ specifications in spec/ checked by TLC (E1), TLC-generated cases/behaviours replayed on the real library (E2), traces recorded from the real library validated by TLC trace specifications (E3)",
        }],
        "checks": checks,
        "not_applicable": na,
        "notes": "Exit 2 from a check means infrastructure/model failure, never a property verdict. Genuine defects repaired in /repo are listed as 'fixed:' lines in KNOWN_FINDINGS.txt.",
    }
    json.dump(m, open(os.path.join(ROOT, "MANIFEST.json"), "w"), indent=1)
    print("MANIFEST.json: %d checks, %d not_applicable" % (len(checks), len(na)))


if __name__ == "__main__":
    main()
