"""Turns a TLC-emitted stack descriptor (spec/StackMC.tla) into a C++ translation unit that builds the real stack and
checks C02 (values), C13 (whole field API) and C17 (configuration read-back / rebuild / positional helper)."""
import json

SCALAR = {"size": "std::size_t", "uint": "unsigned", "int": "int", "float": "float", "double": "double"}
LAYOUTS = ("strided", "morton", "hilbert")


def vec(xs):
    return "{" + ",".join(str(int(x)) for x in xs) + "}"


def mat(A):
    return "{" + ",".join(vec(r) for r in A) + "}"


def kinds(layers):
    """bottom-up (n, ins) per level: the input kind seen at each layer."""
    out = [None] * len(layers)
    n = ins = None
    for i in range(len(layers) - 1, -1, -1):
        l = layers[i]
        k = l["k"]
        if k == "array":
            n, ins = 1, "size"
        elif k == "constant":
            n, ins = l["n"], l["ins"]
        elif k == "identity":
            n, ins = l["n"], l["t"]
        elif k in LAYOUTS:
            n, ins = l["n"], l["ins"]
        elif k in ("linear", "nearest"):
            n, ins = l["n"], l["ins"]
        out[i] = (n, ins)
    return out


def type_of(layers, i=0, swap=None):
    l = layers[i]
    k = l["k"]
    if swap and k in swap:
        k = swap[k]
    inner = type_of(layers, i + 1, swap) if i + 1 < len(layers) else None
    if k == "array":
        if l.get("idx"):        # array storage addressed by a narrower index type (configuration-only programs)
            return "cb::array<cv::vector_d<%s, %d>, %s>" % (SCALAR[l["t"]], l["m"], {"uint8": "uint8_t", "uint16": "uint16_t", "uint32": "uint32_t"}[l["idx"]])
        return "cb::array<cv::vector_d<%s, %d>>" % (SCALAR[l["t"]], l["m"])
    if k == "constant":
        return "cb::constant<cv::vector_d<%s, %d>, cv::vector_d<%s, %d>>" % (SCALAR[l["ins"]], l["n"], SCALAR[l["t"]], l["m"])
    if k == "identity":
        return "cb::identity<cv::vector_d<%s, %d>>" % (SCALAR[l["t"]], l["n"])
    if k in LAYOUTS:
        return "cb::%s<cv::vector_d<%s, %d>, %s>" % (k, SCALAR[l["ins"]], l["n"], inner)
    if k in ("linear", "nearest"):
        return "cb::%s<%s, cv::vector_d<%s, %d>>" % ("linear" if k == "linear" else "nearest_neighbour", inner, SCALAR[l["ins"]], l["n"])
    if k == "shuffle":
        return "cb::shuffle<%s, std::index_sequence<%s>>" % (inner, ",".join(str(p) for p in l["perm"]))
    if k == "cast":
        return "cb::covariant_cast<%s, %s>" % (SCALAR[l["t"]], inner)
    if k == "deref":
        return "cb::dereference<%s>" % inner
    return "cb::%s<%s>" % (k, inner)


def cfg_expr(l, ty):
    k = l["k"]
    if k == "clamp":
        return "vs::clamp_cfg<%s>(%s, %s)" % (ty, vec(l["lo"]), vec(l["hi"]))
    if k == "backup":
        return "vs::backup_cfg<%s>(%s, %s, %s)" % (ty, vec(l["lo"]), vec(l["hi"]), vec(l["dflt"]))
    if k == "affine":
        return "vs::affine_cfg<%s>(%s)" % (ty, mat(l["A"]))
    if k in LAYOUTS:
        return "vs::sizes_cfg<%s>(%s)" % (ty, vec(l["ext"]))
    if k == "array":
        return "typename %s::configuration_t{%dul}" % (ty, l["count"])
    if k == "constant":
        return "vs::const_cfg<%s>(%s)" % (ty, vec(l["value"]))
    return "typename %s::configuration_t{}" % ty


def alt_layer(l):
    """the same layer with different configuration VALUES (extents and counts unchanged)"""
    a = dict(l)
    k = l["k"]
    if k == "clamp":
        a["lo"] = [x + 1 for x in l["lo"]]; a["hi"] = [x + 2 for x in l["hi"]]
    elif k == "backup":
        a["lo"] = [x + 1 for x in l["lo"]]; a["hi"] = [x + 1 for x in l["hi"]]; a["dflt"] = [x - 5 for x in l["dflt"]]
    elif k == "affine":
        a["A"] = [[(v + 3 if j == len(row) - 1 else (2 * v if v else 0)) for j, v in enumerate(row)] for row in l["A"]]
    elif k == "constant":
        a["value"] = [x + 7 for x in l["value"]]
    return a


def big_layers(layers):
    """the same stack with every extent 2 larger (and the array sized for it): the target of assignments from a smaller field"""
    out = [dict(l) for l in layers]
    for i, l in enumerate(out):
        if l["k"] in LAYOUTS:
            l["ext"] = [e + 2 for e in l["ext"]]
            if i + 1 < len(out) and out[i + 1]["k"] == "array":
                if l["k"] == "strided":
                    n = 1
                    for e in l["ext"]:
                        n *= e
                else:
                    side = 1
                    while side < max(l["ext"]):
                        side *= 2
                    n = side ** len(l["ext"])
                out[i + 1]["count"] = n
    return out


def same_expr(l, var):
    k = l["k"]
    if k == "clamp":
        return "vs::same_clamp(%s, %s, %s)" % (var, vec(l["lo"]), vec(l["hi"]))
    if k == "backup":
        return "vs::same_backup(%s, %s, %s, %s)" % (var, vec(l["lo"]), vec(l["hi"]), vec(l["dflt"]))
    if k == "affine":
        return "vs::same_affine(%s, %s)" % (var, mat(l["A"]))
    if k in LAYOUTS:
        return "vs::same_sizes(%s, %s)" % (var, vec(l["ext"]))
    if k == "array":
        return "(%s[0] == %dul)" % (var, l["count"])
    if k == "constant":
        return "vs::same_const(%s, %s)" % (var, vec(l["value"]))
    return "std::is_same_v<std::decay_t<decltype(%s)>, std::monostate>" % var


def name_of(layers):
    parts = []
    for l in layers:
        k = l["k"]
        if k in ("array",):
            parts.append("array<%s%d>" % (l["t"], l["m"]))
        elif k == "constant":
            parts.append("constant<%s%d,%s%d>" % (l["ins"], l["n"], l["t"], l["m"]))
        elif k == "identity":
            parts.append("identity<%s%d>" % (l["t"], l["n"]))
        elif k in LAYOUTS:
            parts.append("%s<%s%d>" % (k, l["ins"], l["n"]))
        elif k in ("linear", "nearest"):
            parts.append("%s<%s%d>" % (k, l["ins"], l["n"]))
        elif k == "cast":
            parts.append("cast<%s>" % l["t"])
        else:
            parts.append(k)
    return "/".join(parts)


def gen_config_only(case, path):
    """A stack whose array is NOT sized for the storage order above it: construct, read every layer's configuration back, rebuild
    from the reported configurations, construct through the positional helper.  Never looked up."""
    layers = case["layers"]
    depth = len(layers)
    name = name_of(layers) + "/count=%d" % layers[-1]["count"] + ("/index=" + layers[-1]["idx"] if layers[-1].get("idx") else "")
    L = ["#define VF_STACK_NAME \"%s\"" % name, "#include \"stack_common.hpp\"", ""]
    for i in range(depth):
        L.append("using L%d = %s;" % (i, type_of(layers, i)))
    L.append("using B = L0;")
    L.append("using F = covfie::field<B>;")
    cfgs = ", ".join(cfg_expr(layers[i], "L%d" % i) for i in range(depth))
    L.append("int main() {")
    L.append("    F f(covfie::make_parameter_pack(%s));" % cfgs)
    for i in range(depth):
        acc = "f.backend()" + ".get_backend()" * i
        L.append("    { auto c = %s.get_configuration(); vs::check(%s, \"c17/configuration-readback-unrelated-sizes\", \"\\\"layer\\\":%d\"); }" % (acc, same_expr(layers[i], "c"), i))
    rep = ", ".join("%s.get_configuration()" % ("f.backend()" + ".get_backend()" * i) for i in range(depth))
    L.append("    { F g(covfie::make_parameter_pack(%s));" % rep)
    for i in range(depth):
        acc = "g.backend()" + ".get_backend()" * i
        L.append("      { auto c = %s.get_configuration(); vs::check(%s, \"c17/rebuilt-from-reported-configuration-unrelated-sizes\", \"\\\"layer\\\":%d\"); }" % (acc, same_expr(layers[i], "c"), i))
    L.append("    }")
    L.append("    { F h(covfie::make_parameter_pack_for<F>(%s));" % cfgs)
    for i in range(depth):
        acc = "h.backend()" + ".get_backend()" * i
        L.append("      { auto c = %s.get_configuration(); vs::check(%s, \"c17/positional-helper-unrelated-sizes\", \"\\\"layer\\\":%d\"); }" % (acc, same_expr(layers[i], "c"), i))
    L.append("    }")
    L.append("    { F c1(f); F c2 = F(covfie::make_parameter_pack(%s)); c2 = c1;" % cfgs)
    L.append("      { auto c = c2.backend()%s.get_configuration(); vs::check(%s, \"c17/configuration-readback-unrelated-sizes\", \"\\\"layer\\\":%d\"); } }" % (".get_backend()" * (depth - 1), same_expr(layers[-1], "c"), depth - 1))
    L.append("    std::printf(\"SUMMARY {\\\"cases\\\":1,\\\"checks\\\":%ld,\\\"mismatches\\\":%ld}\\n\", vs::g_checks, vs::g_bad);")
    L.append("    return 0;")
    L.append("}")
    open(path, "w").write("\n".join(L) + "\n")
    return name


def gen(case, path, ident):
    if case.get("config_only"):
        return gen_config_only(case, path)
    layers = case["layers"]
    depth = len(layers)
    kd = kinds(layers)
    n, ins = kd[0]
    S = case["scale"]
    name = name_of(layers)
    L = ["#define VF_STACK_NAME \"%s\"" % name, "#include \"stack_common.hpp\"", ""]
    # layer types, outermost = L0
    for i in range(depth):
        L.append("using L%d = %s;" % (i, type_of(layers, i)))
    L.append("using B = L0;")
    L.append("using F = covfie::field<B>;")
    L.append("")
    # ---------------- C13: the concept and view triviality are compile-time facts
    L.append("static_assert(covfie::concepts::field_backend<B>, \"well-kinded stack must satisfy the backend concept\");")
    L.append("static_assert(std::is_trivially_copyable_v<typename B::non_owning_data_t>, \"view data must be trivially copyable\");")
    L.append("static_assert(std::is_trivially_copyable_v<typename F::view_t>, \"view must be trivially copyable\");")
    L.append("")
    L.append("static F build() {")
    cfgs = ", ".join(cfg_expr(layers[i], "L%d" % i) for i in range(depth))
    L.append("    F f(covfie::make_parameter_pack(%s));" % cfgs)
    lay = [i for i in range(depth) if layers[i]["k"] in LAYOUTS]
    if lay:
        j = lay[0]
        L.append("    vs::fill_through<L%d>(f.backend()%s);" % (j, ".get_backend()" * j))
    L.append("    return f;")
    L.append("}")
    # the same stack with different configuration values and different stored data: the target of assignments
    alt = [alt_layer(l) for l in layers]
    L.append("static F build_alt() {")
    L.append("    F f(covfie::make_parameter_pack(%s));" % ", ".join(cfg_expr(alt[i], "L%d" % i) for i in range(depth)))
    L.append("    return f;      // (storage left zero-initialised: differs from the filled field)")
    L.append("}")
    big = big_layers([alt_layer(l) for l in layers])
    has_big = any(l["k"] in LAYOUTS for l in layers) and layers[-1]["k"] == "array"
    if has_big:
        L.append("static F build_big() {      // different configuration values AND larger extents")
        L.append("    F f(covfie::make_parameter_pack(%s));" % ", ".join(cfg_expr(big[i], "L%d" % i) for i in range(depth)))
        L.append("    return f;")
        L.append("}")
    L.append("")
    cs = SCALAR[ins]
    L.append("using coord_t = typename F::coordinate_t;")
    L.append("struct query { std::vector<double> x; std::vector<double> want; };")
    qs = []
    for q in case["queries"]:
        qs.append("{{%s}, {%s}}" % (",".join(repr(v / S) for v in q["x"]), ",".join(repr(v / S) for v in q["value"])))
    L.append("static const std::vector<query> QUERIES = {%s};" % ",\n    ".join(qs))
    L.append("static coord_t mk(const std::vector<double> & x) { coord_t c; for (std::size_t i = 0; i < x.size(); ++i) c[i] = static_cast<%s>(x[i]); return c; }" % cs)
    args = ", ".join("static_cast<%s>(q.x[%d])" % (cs, i) for i in range(n))
    L.append("template <typename FF> static void check_values(const FF & f, const char * key) {")
    L.append("    typename FF::view_t v(f);")
    L.append("    for (auto & q : QUERIES) {")
    L.append("        auto got = vs::look(f, mk(q.x));")
    L.append("        vs::check(got == q.want, key, \"\\\"x\\\":\" + vs::vec(q.x) + \",\\\"got\\\":\" + vs::vec(got) + \",\\\"want\\\":\" + vs::vec(q.want));")
    L.append("        auto r2 = v.at(%s);   // variadic form of the lookup" % args)
    L.append("        std::vector<double> g2; for (std::size_t k = 0; k < q.want.size(); ++k) g2.push_back((double)r2[k]);")
    L.append("        vs::check(g2 == q.want, \"c02/variadic-lookup\", \"\\\"x\\\":\" + vs::vec(q.x) + \",\\\"got\\\":\" + vs::vec(g2) + \",\\\"want\\\":\" + vs::vec(q.want));")
    L.append("    }")
    L.append("}")
    L.append("")
    L.append("int main() {")
    L.append("    F f = build();")
    L.append("    check_values(f, \"c02/value\");")
    # ---------------- C17: configuration read-back through get_backend() chains
    for i in range(depth):
        acc = "f.backend()" + ".get_backend()" * i
        L.append("    { auto c = %s.get_configuration(); vs::check(%s, \"c17/configuration-readback\", \"\\\"layer\\\":%d\"); }" % (acc, same_expr(layers[i], "c"), i))
        L.append("    static_assert(std::is_same_v<std::decay_t<decltype(%s)>, typename L%d::owning_data_t>, \"get_backend() chain reaches layer %d\");" % (acc, i, i))
    L.append("    { typename F::view_t v(f); auto & s0 = v.backend();")
    for i in range(depth):
        acc = "s0" + ".get_backend()" * i
        L.append("      static_assert(std::is_same_v<std::decay_t<decltype(%s)>, typename L%d::non_owning_data_t>, \"view get_backend() chain reaches layer %d\");" % (acc, i, i))
    L.append("    }")
    # rebuild from the reported configurations and the storage
    inner_acc = "f.backend()" + ".get_backend()" * (depth - 1)
    rep = ", ".join("%s.get_configuration()" % ("f.backend()" + ".get_backend()" * i) for i in range(depth - 1))
    if layers[-1]["k"] == "array":
        last = "typename L%d::owning_data_t(%s)" % (depth - 1, inner_acc)
    else:
        last = "%s.get_configuration()" % inner_acc
    L.append("    { F g(covfie::make_parameter_pack(%s)); check_values(g, \"c17/rebuilt-from-reported-configuration\"); }" % (", ".join([x for x in [rep, last] if x])))
    if lay and lay[0] > 0 and layers[lay[0]]["k"] in ("strided", "morton"):     # (hilbert and array only accept their storage as an rvalue)
        j = lay[0]
        outer = ", ".join("%s.get_configuration()" % ("f.backend()" + ".get_backend()" * i) for i in range(j))
        L.append("    { auto storage = %s;      // a named copy of the storage-order layer's data, used for two rebuilds" % ("f.backend()" + ".get_backend()" * j))
        L.append("      F g1(covfie::make_parameter_pack(%s, storage)); F g2(covfie::make_parameter_pack(%s, storage));" % (outer, outer))
        L.append("      check_values(g1, \"c17/rebuilt-from-named-storage\"); check_values(g2, \"c17/rebuilt-twice-from-the-same-storage\"); }")
    # positional helper
    if depth <= 10:
        L.append("    { F h(covfie::make_parameter_pack_for<F>(%s));" % cfgs)
        for i in range(depth):
            acc = "h.backend()" + ".get_backend()" * i
            L.append("      { auto c = %s.get_configuration(); vs::check(%s, \"c17/positional-helper\", \"\\\"layer\\\":%d\"); }" % (acc, same_expr(layers[i], "c"), i))
        L.append("    }")
    # configuration read-back and rebuild of a field that was ASSIGNED its value (over a larger field of the same type): the
    # reported configuration of every layer, the innermost array's element count included, must be the source's
    if has_big:
        L.append("    { F b = build_big(); b = f; check_values(b, \"c13/copy-assigned-over-a-larger-field\");")
        for i in range(depth):
            acc = "b.backend()" + ".get_backend()" * i
            L.append("      { auto c = %s.get_configuration(); vs::check(%s, \"c17/configuration-readback-after-assignment\", \"\\\"layer\\\":%d\"); }" % (acc, same_expr(layers[i], "c"), i))
        repb = ", ".join("%s.get_configuration()" % ("b.backend()" + ".get_backend()" * i) for i in range(depth))
        L.append("      F g(covfie::make_parameter_pack(%s)); " % repb)
        for i in range(depth):
            acc = "g.backend()" + ".get_backend()" * i
            L.append("      { auto c = %s.get_configuration(); vs::check(%s, \"c17/rebuilt-from-configuration-after-assignment\", \"\\\"layer\\\":%d\"); }" % (acc, same_expr(layers[i], "c"), i))
        L.append("    }")
    # a long-lived view: made from a field that is then moved elsewhere and whose variable is given another value; the view
    # is a self-contained value (configuration copies + storage pointer) and keeps denoting what it was made from
    L.append("    { F a(f); typename F::view_t v(a); F b(std::move(a)); a = build_alt();")
    L.append("      for (auto & q : QUERIES) { auto r = v.at(mk(q.x)); std::vector<double> g; for (std::size_t k = 0; k < q.want.size(); ++k) g.push_back((double)r[k]);")
    L.append("        vs::check(g == q.want, \"c13/view-after-owner-moved-and-variable-reused\", \"\\\"x\\\":\" + vs::vec(q.x) + \",\\\"got\\\":\" + vs::vec(g) + \",\\\"want\\\":\" + vs::vec(q.want)); }")
    L.append("      check_values(b, \"c13/move-constructed-with-live-view\"); }")
    # the view copied BYTEWISE into raw storage, the way it reaches a device kernel; the original view is destroyed first
    L.append("    { alignas(typename F::view_t) unsigned char raw[sizeof(typename F::view_t)];")
    L.append("      { typename F::view_t v(f); std::memcpy(raw, &v, sizeof v); }")
    L.append("      const typename F::view_t & pv = *std::launder(reinterpret_cast<const typename F::view_t *>(raw));")
    L.append("      for (auto & q : QUERIES) { auto r = pv.at(mk(q.x)); std::vector<double> g; for (std::size_t k = 0; k < q.want.size(); ++k) g.push_back((double)r[k]);")
    L.append("        vs::check(g == q.want, \"c13/view-copied-bytewise\", \"\\\"x\\\":\" + vs::vec(q.x) + \",\\\"got\\\":\" + vs::vec(g) + \",\\\"want\\\":\" + vs::vec(q.want)); } }")
    # ---------------- C13: the rest of the API, executed
    L.append("    { F d; (void)d; }                                            // default construction")
    L.append("    { F c1(f); check_values(c1, \"c13/copy-constructed\"); F c2(std::move(c1)); check_values(c2, \"c13/move-constructed\");")
    L.append("      F c3 = build_alt(); c3 = f; check_values(c3, \"c13/copy-assigned\"); F c4 = build_alt(); c4 = std::move(c3); check_values(c4, \"c13/move-assigned\");")
    L.append("      F c5 = build_alt(); F c6(f); std::swap(c5, c6); check_values(c5, \"c13/swapped\");")
    L.append("      F c7 = build_alt(); c7 = F(f); check_values(c7, \"c13/move-assigned-from-temporary\"); }")
    L.append("    { std::stringstream ss; f.dump(ss); F l(ss); check_values(l, \"c13/dumped-and-loaded\");")
    L.append("      std::stringstream s2; l.dump(s2); vs::check(ss.str() == s2.str(), \"c13/redump-bytes\", \"\\\"len\\\":0\"); }")
    # conversion from a compatible stack
    above = [layers[i]["k"] for i in range(lay[0])] if lay else None
    if lay and all(k in ("affine", "linear", "nearest") for k in above) and layers[lay[0]]["n"] >= 1:
        cur = layers[lay[0]]["k"]
        other = "strided" if cur != "strided" else "morton"
        swap = {cur: other, "linear": "nearest", "nearest": "linear"}
        L.append("    { using B2 = %s; static_assert(covfie::concepts::field_backend<B2>);" % type_of(layers, 0, swap))
        L.append("      covfie::field<B2> g(f);                                   // conversion from a compatible stack")
        L.append("      F back(g); ")
        if not any(k in ("linear", "nearest") for k in above):
            L.append("      check_values(back, \"c13/converted-there-and-back\");")
        else:
            L.append("      (void)back;")
        L.append("    }")
    L.append("    std::printf(\"SUMMARY {\\\"cases\\\":1,\\\"checks\\\":%ld,\\\"mismatches\\\":%ld}\\n\", vs::g_checks, vs::g_bad);")
    L.append("    return 0;")
    L.append("}")
    open(path, "w").write("\n".join(L) + "\n")
    return name


def gen_ill(case, path):
    layers = case["layers"]
    L = ["#define VF_STACK_NAME \"ill\"", "#include \"stack_common.hpp\"",
         "using B = %s;" % type_of(layers),
         "// %s" % case["rule"],
         "int main() { covfie::field<B> f; typename covfie::field<B>::view_t v(f); (void)v; return 0; }"]
    open(path, "w").write("\n".join(L) + "\n")
    return name_of(layers)
