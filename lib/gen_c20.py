"""Turns TLC-emitted StaticSeq cases into translation units whose constant expressions make the compiler
evaluate covfie's compile-time sort / permutation metaprograms; results are compared at run time so that a
wrong result names its case (a non-terminating or ill-formed instantiation shows as a compile failure)."""
import json


RANKS = [0, 1, 2, 3, 7, 8, 255, 256, 65535, 65536, 2 ** 31 - 1, 2 ** 32, 2 ** 63 - 1, 2 ** 63, 2 ** 64 - 2, 2 ** 64 - 1]


def seq(s, ranked=False):
    return "S<" + ",".join(str(RANKS[x] if ranked else x) + "ul" for x in s) + ">"


def gen(cases, path):
    # every core header is included next to the metaprograms: a specialisation of sort_index_sequence / is_permutation added by
    # any other header (a layer, the concepts) must not change their results in a translation unit that uses the library
    ALL = ["algebra/affine", "algebra/matrix", "algebra/vector", "array", "backend/primitive/array", "backend/primitive/constant",
           "backend/primitive/identity", "backend/transformer/affine", "backend/transformer/backup", "backend/transformer/clamp",
           "backend/transformer/covariant_cast", "backend/transformer/dereference", "backend/transformer/hilbert",
           "backend/transformer/linear", "backend/transformer/morton", "backend/transformer/nearest_neighbour",
           "backend/transformer/shuffle", "backend/transformer/strided", "concepts", "field", "field_view", "parameter_pack",
           "utility/backend_traits", "utility/binary_io", "utility/nd_map", "utility/nd_size", "utility/numeric", "vector"]
    lines = ["#include <covfie/core/%s.hpp>" % h for h in ALL] + ["#include <covfie/core/utility/static_permutation.hpp>", "#include <cstdio>", "#include <utility>",
             "#include <type_traits>", "using namespace covfie::utility;",
             "template <std::size_t... I> using S = std::index_sequence<I...>;",
             "static constexpr bool R[] = {"]
    descr = []
    for c in cases:
        rk = c["kind"].endswith("_rank")
        if c["kind"].startswith("sort"):
            lines.append("  std::is_same_v<typename sort_index_sequence<%s>::type, %s>," % (seq(c["s"], rk), seq(c["sorted"], rk)))
            descr.append(("sort", json.dumps({"s": c["s"], "want_sorted": c["sorted"], "values_are_ranks": rk})))
        else:
            lines.append("  (is_permutation<%s, %s>::value == %s)," % (seq(c["a"], rk), seq(c["b"], rk), "true" if c["r"] else "false"))
            descr.append(("is_permutation", json.dumps({"a": c["a"], "b": c["b"], "want": c["r"], "values_are_ranks": rk})))
    lines.append("  true};")
    lines.append("static const char * K[] = {" + ",".join('"%s"' % k for k, _ in descr) + ",\"\"};")
    lines.append("static const char * D[] = {" + ",".join(json.dumps(d) for _, d in descr) + ",\"\"};")
    lines.append("int main() { long bad = 0; const long n = %d;" % len(cases))
    lines.append("  for (long i = 0; i < n; ++i) if (!R[i]) { ++bad; if (bad <= 20) std::printf(\"MISMATCH static/%s %s\\n\", K[i], D[i]); }")
    lines.append("  std::printf(\"SUMMARY {\\\"cases\\\":%ld,\\\"checks\\\":%ld,\\\"mismatches\\\":%ld}\\n\", n, n, bad); return 0; }")
    open(path, "w").write("\n".join(lines) + "\n")
