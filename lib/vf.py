"""Shared machinery for the covfie TLA+ model-based checks.

Every check is a python function `run(ck)` in lib/checks/<ID>.py that receives a
`Check` object.  The object runs TLC (model checking, case generation, trace
validation), builds harness programs from the *current working tree* of the
covfie sources, runs them, collects violations, consults KNOWN_FINDINGS.txt and
writes the evidence file.

Exit codes of bin/check:  0 property held on everything explored
                          1 at least one unlisted violation (VIOLATION lines printed)
                          2 infrastructure or *model* failure (TLC rejects the
                            committed specification, tool missing, ...)
"""
import atexit
import hashlib
import json
import os
import re
import shutil
import subprocess
import sys
import time

ROOT = os.path.dirname(os.path.dirname(os.path.abspath(__file__)))
SPEC = os.path.join(ROOT, "spec")
HARNESS = os.path.join(ROOT, "harness")
REPO = os.environ.get("COVFIE_SRC", "/repo")
BUILD = os.path.join(ROOT, "build")
CACHE = os.path.join(BUILD, "cache")
NCPU = os.cpu_count() or 4

TLC_JAR = "/opt/veriftools/tla/tla2tools.jar:/opt/veriftools/tla/CommunityModules-deps.jar"


class ModelFailure(Exception):
    pass


def _sha(*parts):
    h = hashlib.sha256()
    for p in parts:
        if isinstance(p, str):
            p = p.encode()
        h.update(p)
        h.update(b"\0")
    return h.hexdigest()[:20]


_tree_hash_cache = {}


def tree_hash(path):
    """Hash of every file under `path` (names + contents)."""
    if path in _tree_hash_cache:
        return _tree_hash_cache[path]
    h = hashlib.sha256()
    for d, dirs, files in sorted(os.walk(path)):
        dirs.sort()
        for f in sorted(files):
            fp = os.path.join(d, f)
            h.update(os.path.relpath(fp, path).encode())
            with open(fp, "rb") as fh:
                h.update(fh.read())
    _tree_hash_cache[path] = h.hexdigest()[:20]
    return _tree_hash_cache[path]


FLAGS = {
    # assertion-enabled, sanitised
    "asan": ["-O1", "-g", "-fsanitize=address,undefined", "-fno-sanitize-recover=undefined",
             "-fno-omit-frame-pointer"],
    "asanl": ["-O1", "-fsanitize=address,undefined", "-fno-sanitize-recover=undefined"],      # no debug info: small binaries
    "asan0": ["-O0", "-g", "-fsanitize=address,undefined", "-fno-sanitize-recover=undefined",
              "-fno-omit-frame-pointer"],
    # what the baseline suite uses
    "rel": ["-O2", "-DNDEBUG"],
    "relg": ["-O2", "-g", "-DNDEBUG"],
    "bmi2": ["-O1", "-g", "-mbmi2", "-fsanitize=address,undefined", "-fno-sanitize-recover=undefined"],
    "relbmi2": ["-O2", "-DNDEBUG", "-mbmi2"],
    "tsan": ["-O1", "-g", "-fsanitize=thread"],
    "dbg": ["-O0", "-g"],
}

SAN_ENV = {
    "ASAN_OPTIONS": "detect_leaks=1:abort_on_error=0:exitcode=66:allocator_may_return_null=0",
    "UBSAN_OPTIONS": "print_stacktrace=1:halt_on_error=1:exitcode=67",
    "TSAN_OPTIONS": "exitcode=68:halt_on_error=0",
}


class Known:
    def __init__(self):
        self.findings = []  # (prop, key, text)
        p = os.path.join(ROOT, "KNOWN_FINDINGS.txt")
        if os.path.exists(p):
            for line in open(p):
                m = re.match(r"finding:\s+property=(\S+)\s+key=(\S+)\s+(.*)", line.strip())
                if m:
                    self.findings.append((m.group(1), m.group(2), m.group(3)))

    def lookup(self, prop, key):
        for p, k, t in self.findings:
            if p == prop and k == key:
                return t
        return None


class Check:
    def __init__(self, pid, tier, seed, level="model_checking"):
        self.pid = pid
        self.tier = tier
        self.seed = seed
        self.level = level
        self.t0 = time.time()
        self.work = os.path.join(BUILD, "run-%s-%d" % (pid, os.getpid()))
        shutil.rmtree(self.work, ignore_errors=True)
        os.makedirs(self.work, exist_ok=True)
        os.makedirs(CACHE, exist_ok=True)
        atexit.register(lambda: shutil.rmtree(self.work, ignore_errors=True))
        self.known = Known()
        self.cov = {
            "states": 0, "transitions": 0, "traces_validated_against_impl": 0,
            "samples": [], "tlc_runs": [], "builds": [], "bounds": {},
            "behaviours_replayed": 0, "cases_replayed": 0, "impl_checks": 0,
            "trace_events_validated": 0,
        }
        self.assumptions = []
        self.violations = []   # (key, replay path)
        self.known_hits = []
        self.dup_counts = {}
        self.notes = []
        self.quick = tier == "quick"

    # ------------------------------------------------------------------ util
    def log(self, *a):
        print("[%s %6.1fs]" % (self.pid, time.time() - self.t0), *a, flush=True)

    def path(self, name):
        return os.path.join(self.work, name)

    def sample(self, s, limit=6):
        if len(self.cov["samples"]) < limit:
            self.cov["samples"].append(s)

    def bound(self, k, v):
        self.cov["bounds"][k] = v

    def assume(self, s):
        if s not in self.assumptions:
            self.assumptions.append(s)

    # ------------------------------------------------------------------- TLC
    def tlc(self, module, cfg, tag=None, workers=None, env=None, timeout=900, mode="mc",
            simulate=None, depth=None, extra=None, expect_ok=True, heap="8g", dfs=False,
            count=True):
        """Run TLC on spec/<module>.tla with spec/<cfg> (or literal cfg text).

        Returns dict(rc, out, generated, distinct, ok).  With expect_ok a non-zero TLC
        result is a *model* failure (exit 2): the committed spec is expected to
        satisfy its own configuration; nothing in /repo can change that.
        """
        tag = tag or (module + "-" + re.sub(r"\W+", "_", cfg[:40]))
        if "\n" in cfg:
            cfgp = self.path(tag + ".cfg")
            open(cfgp, "w").write(cfg)
        else:
            cfgp = os.path.join(SPEC, cfg)
        meta = self.path("meta-" + tag)
        shutil.rmtree(meta, ignore_errors=True)
        if workers is None:
            workers = NCPU
        jopts = ["-XX:+UseParallelGC", "-Xss64m", "-Xmx" + heap, "-Dtlc2.TLC.stopAfter=%d" % (timeout + 60)]
        if dfs:
            jopts.append("-Dtlc2.tool.queue.IStateQueue=StateDeque")
        cmd = ["java"] + jopts + ["-cp", TLC_JAR, "tlc2.TLC", "-workers", str(workers), "-metadir", meta,
                                   "-noGenerateSpecTE", "-seed", str(self.seed % (2 ** 31)),
                                   "-config", cfgp]
        if simulate:
            cmd += ["-simulate", "num=%d" % simulate]
            if depth:
                cmd += ["-depth", str(depth)]
        if extra:
            cmd += extra
        cmd += [os.path.join(SPEC, module + ".tla")]
        e = dict(os.environ)
        e.pop("JAVA_TOOL_OPTIONS", None)
        if env:
            e.update({k: str(v) for k, v in env.items()})
        t = time.time()
        try:
            p = subprocess.run(cmd, cwd=SPEC, env=e, stdout=subprocess.PIPE, stderr=subprocess.STDOUT,
                               timeout=timeout, text=True)
            rc, out = p.returncode, p.stdout
        except subprocess.TimeoutExpired as ex:
            rc, out = 124, (ex.stdout or b"").decode() if isinstance(ex.stdout, bytes) else (ex.stdout or "")
        dt = time.time() - t
        shutil.rmtree(meta, ignore_errors=True)
        gen = dist = 0
        m = re.findall(r"(\d+) states generated, (\d+) distinct states found", out)
        if m:
            gen, dist = int(m[-1][0]), int(m[-1][1])
        ms = re.findall(r"(\d+) states checked", out)
        if simulate and ms:
            gen = dist = int(ms[-1])
        res = {"rc": rc, "out": out, "generated": gen, "distinct": dist, "ok": rc == 0, "wall_s": round(dt, 2)}
        self.cov["tlc_runs"].append({"module": module, "cfg": tag if "\n" in cfg else cfg, "mode": mode,
                                     "rc": rc, "generated": gen, "distinct": dist, "wall_s": round(dt, 2)})
        if count and mode in ("mc", "gen", "sim"):
            self.cov["states"] += dist
            self.cov["transitions"] += gen
        if expect_ok and rc != 0:
            self.model_failure("TLC %s / %s returned %d\n%s" % (module, tag, rc, out[-4000:]))
        return res

    def tlaps(self, module, deps, timeout=600):
        """Discharge the theorems of spec/<module>.tla with the TLA+ proof system (unbounded, machine-checked).  A failure is a
        model failure: nothing in /repo can change it."""
        d = self.path("tlaps-" + module)
        os.makedirs(d, exist_ok=True)
        for m in [module] + list(deps):
            shutil.copy(os.path.join(SPEC, m + ".tla"), d)
        t = time.time()
        try:
            p = subprocess.run(["tlapm", "--cleanfp", module + ".tla"], cwd=d, stdout=subprocess.PIPE, stderr=subprocess.STDOUT, text=True, timeout=timeout)
            out = p.stdout
        except (subprocess.TimeoutExpired, FileNotFoundError) as ex:
            self.model_failure("tlapm failed to run on %s: %s" % (module, ex))
        m = re.search(r"All (\d+) obligations? proved", out)
        if not m:
            self.model_failure("TLAPS did not prove every obligation of %s\n%s" % (module, out[-2000:]))
        n = int(m.group(1))
        self.cov.setdefault("tlaps", []).append({"module": module, "obligations": n, "proved": n, "wall_s": round(time.time() - t, 1)})
        return n

    def model_failure(self, msg):
        print("MODEL-OR-INFRASTRUCTURE FAILURE (not a property violation):\n" + msg, flush=True)
        self.finish(force_rc=2)

    # ----------------------------------------------------------------- build
    def build(self, name, sources, flavour="asan", extra_flags=(), defines=(), libs=(), timeout=900,
              soft=False):
        """Compile harness sources against the current tree of REPO/lib.

        Returns the path of the binary, or None when the compiler rejected it
        (the log is then in self.last_build_log).  Cached on the hash of
        REPO/lib, the harness sources and the flags.
        """
        if isinstance(sources, str):
            sources = [sources]
        srcs = [s if os.path.isabs(s) else os.path.join(HARNESS, s) for s in sources]
        flags = ["-std=c++20", "-w"] + FLAGS[flavour] + list(extra_flags) + ["-D" + d for d in defines] + \
            ["-DCOVFIE_VERIF", "-I" + os.path.join(REPO, "lib/core"), "-I" + os.path.join(REPO, "lib/cpu"),
             "-I" + HARNESS]
        key = _sha(tree_hash(os.path.join(REPO, "lib")), tree_hash(HARNESS) if not soft else "", " ".join(flags),
                   " ".join(libs), *[open(s, "rb").read() for s in srcs])
        d = os.path.join(CACHE, key)
        binp = os.path.join(d, name)
        logp = os.path.join(d, name + ".log")
        self.cov["builds"].append({"name": name, "flavour": flavour, "defines": list(defines)})
        if os.path.exists(binp):
            return binp
        if os.path.exists(logp) and os.path.exists(os.path.join(d, name + ".failed")):
            self.last_build_log = open(logp).read()
            return None
        os.makedirs(d, exist_ok=True)
        cmd = ["g++"] + flags + srcs + ["-o", binp + ".tmp"] + list(libs)
        try:
            p = subprocess.run(cmd, stdout=subprocess.PIPE, stderr=subprocess.STDOUT, text=True, timeout=timeout)
        except subprocess.TimeoutExpired:
            self.model_failure("compiler timeout building " + name)
        open(logp, "w").write(" ".join(cmd) + "\n" + p.stdout)
        if p.returncode != 0:
            open(os.path.join(d, name + ".failed"), "w").write("1")
            self.last_build_log = p.stdout
            return None
        os.replace(binp + ".tmp", binp)
        return binp

    def build_many(self, specs, jobs=None):
        """specs: list of dict(name, sources, flavour, defines, extra_flags, libs). Parallel build; returns list of
        (spec, binary-or-None, log)."""
        from concurrent.futures import ThreadPoolExecutor
        res = []

        def one(sp):
            sub = Check.__new__(Check)
            sub.__dict__ = dict(self.__dict__)
            sub.cov = {"builds": []}
            sub.last_build_log = ""
            b = Check.build(sub, sp["name"], sp["sources"], sp.get("flavour", "asan"), sp.get("extra_flags", ()),
                            sp.get("defines", ()), sp.get("libs", ()))
            return sp, b, sub.last_build_log

        with ThreadPoolExecutor(max_workers=jobs or NCPU) as ex:
            for sp, b, log in ex.map(one, specs):
                self.cov["builds"].append({"name": sp["name"], "flavour": sp.get("flavour", "asan"),
                                           "defines": list(sp.get("defines", ()))})
                res.append((sp, b, log))
        return res

    def run_many(self, cmds, jobs=None, timeout=900, env=None):
        """cmds: list of argv; returns list of (rc, out, err) in order."""
        from concurrent.futures import ThreadPoolExecutor
        with ThreadPoolExecutor(max_workers=jobs or NCPU) as ex:
            return list(ex.map(lambda a: self.run(a, timeout=timeout, env=env), cmds))

    def prune_cache(self, max_bytes=8 * 2 ** 30, min_age_s=3 * 3600):
        """Keep the build cache below max_bytes: oldest entries first, never entries younger than min_age_s
        (other checks may be running concurrently)."""
        try:
            ents = []
            total = 0
            for d in os.listdir(CACHE):
                dp = os.path.join(CACHE, d)
                sz = sum(os.path.getsize(os.path.join(dp, f)) for f in os.listdir(dp))
                ents.append((os.path.getmtime(dp), sz, dp))
                total += sz
            now = time.time()
            for mt, sz, dp in sorted(ents):
                if total <= max_bytes or now - mt < min_age_s:
                    break
                shutil.rmtree(dp, ignore_errors=True)
                total -= sz
        except OSError:
            pass

    def run(self, argv, timeout=600, env=None, stdin=None, cwd=None):
        e = dict(os.environ)
        e.update(SAN_ENV)
        if env:
            e.update({k: str(v) for k, v in env.items()})
        try:
            p = subprocess.run(argv, stdout=subprocess.PIPE, stderr=subprocess.PIPE, text=True, timeout=timeout,
                               env=e, input=stdin, cwd=cwd or self.work, errors="replace")
            return p.returncode, p.stdout, p.stderr
        except subprocess.TimeoutExpired as ex:
            so = ex.stdout.decode(errors="replace") if isinstance(ex.stdout, bytes) else (ex.stdout or "")
            se = ex.stderr.decode(errors="replace") if isinstance(ex.stderr, bytes) else (ex.stderr or "")
            return 124, so, se + "\nTIMEOUT"

    def validate_trace(self, module, cfg, trace_path, key, n_traces=1, n_events=0, timeout=900, dfs=False):
        """Code -> spec: TLC accepts the recorded ndjson trace or names the longest matched prefix."""
        t = self.tlc(module, cfg, tag="trace-" + re.sub(r"\W+", "_", key), workers=1, env={"VF_TRACE": trace_path},
                     mode="trace", expect_ok=False, timeout=timeout, dfs=dfs)
        if t["rc"] == 0:
            self.cov["traces_validated_against_impl"] += n_traces
            self.cov["trace_events_validated"] += n_events
            return True
        m = re.search(r'TRACE-REJECTED matched-prefix", (\d+)', t["out"])
        if m:
            # a rejection is reported only if an immediate re-run repeats it
            t2 = self.tlc(module, cfg, tag="trace-rerun-" + re.sub(r"\W+", "_", key), workers=1,
                          env={"VF_TRACE": trace_path}, mode="trace", expect_ok=False, timeout=timeout, dfs=dfs)
            m2 = re.search(r'TRACE-REJECTED matched-prefix", (\d+)', t2["out"])
            if not m2 or m2.group(1) != m.group(1):
                self.model_failure("trace validation of %s not reproducible" % key)
            k = int(m.group(1))
            lines = open(trace_path).read().splitlines()
            self.violation(key, {"what": "trace recorded from the implementation is not a behaviour of " + module,
                                 "matched_prefix": k, "rejected_event": lines[k] if 0 <= k < len(lines) else None,
                                 "preceding_events": lines[max(0, k - 3):k]})
            return False
        self.model_failure("%s failed unexpectedly on %s:\n%s" % (module, trace_path, t["out"][-3000:]))

    # ------------------------------------------------------------ violations
    def violation(self, key, detail):
        """Record a violation identified by `key` (stable, input/call-site based)."""
        t = self.known.lookup(self.pid, key)
        if t is not None:
            if key not in [k for k, _ in self.known_hits]:
                self.known_hits.append((key, t))
            return
        if key in [k for k, _ in self.violations]:
            self.dup_counts[key] = self.dup_counts.get(key, 1) + 1
            return
        if len(self.violations) >= 25:
            self.violations.append((key, None))
            return
        os.makedirs(os.path.join(ROOT, "replays"), exist_ok=True)
        rp = os.path.join(ROOT, "replays", "%s-%s.json" % (self.pid, re.sub(r"[^A-Za-z0-9_.-]+", "_", key)[:80]))
        json.dump({"property": self.pid, "key": key, "tier": self.tier, "seed": self.seed, "detail": detail},
                  open(rp, "w"), indent=1, default=str)
        self.violations.append((key, rp))

    def compile_violation(self, what, log):
        errs = [l for l in log.splitlines() if "error" in l][:6]
        self.violation("compile/" + what, {"what": "harness program does not compile against the current tree: the "
                                           "public API the property is about is unusable for this instantiation",
                                           "errors": errs})

    def harness_output(self, name, rc, out, err, allow_rc=(0,), only=None):
        """Standard protocol of harness programs: lines 'MISMATCH <key> <json>' and a final
        'SUMMARY <json>'.  A sanitizer report, signal or missing summary is a violation too."""
        summ = None
        for line in out.splitlines():
            if line.startswith("MISMATCH "):
                parts = line.split(" ", 2)
                try:
                    det = json.loads(parts[2])
                except Exception:
                    det = parts[2] if len(parts) > 2 else ""
                if only is None or parts[1].startswith(only) or parts[1].startswith("crash"):
                    self.violation(parts[1], det)
            elif line.startswith("SUMMARY "):
                summ = json.loads(line[8:])
        if rc not in allow_rc or summ is None:
            tail = (err or "")[-3000:]
            kind = "sanitizer" if ("Sanitizer" in tail or "runtime error" in tail) else "crash"
            self.violation("%s/%s/rc%d" % (kind, name, rc), {"rc": rc, "stderr_tail": tail, "stdout_tail": out[-1500:]})
        return summ or {}

    # -------------------------------------------------------------- evidence
    def finish(self, force_rc=None):
        wall = round(time.time() - self.t0, 2)
        cov = self.cov
        real_v = [v for v in self.violations]
        ev = {
            "property_id": self.pid, "tier": self.tier, "seed": self.seed, "level": self.level,
            "coverage": cov, "assumptions": self.assumptions, "wall_s": wall, "violations": len(real_v),
        }
        if self.level in ("exploration", "fault_enumeration"):
            cov.setdefault("evaluations", cov.get("cases_replayed", 0))
            cov.setdefault("distinct_nontrivial", 0)
            cov.setdefault("rule", "")
        cov["known_findings_hit"] = [k for k, _ in self.known_hits]
        cov["notes"] = self.notes
        cov["repo_lib_hash"] = tree_hash(os.path.join(REPO, "lib"))
        if force_rc == 2:
            ev["coverage"]["explanation"] = "run aborted: infrastructure/model failure"
        # evidence describes a run against /repo itself; runs against a scratch copy (seeded / benign self-tests, COVFIE_SRC set)
        # must not overwrite it
        evdir = os.path.join(ROOT, "evidence") if os.path.realpath(REPO) == "/repo" else os.path.join(BUILD, "evidence-scratch")
        if self.pid.startswith("X") and os.path.realpath(REPO) == "/repo":      # checks beyond the listed properties (DESIGN 10.9)
            evdir = os.path.join(ROOT, "extras", "evidence")
            os.makedirs(evdir, exist_ok=True)
        os.makedirs(evdir, exist_ok=True)
        if not cov["samples"]:
            cov["samples"] = ["(no sample recorded)"]
        json.dump(ev, open(os.path.join(evdir, self.pid + ".json"), "w"), indent=1, default=str)
        for k, t in self.known_hits:
            print("KNOWN-FINDING: property=%s %s [%s]" % (self.pid, t, k))
        for k, rp in real_v:
            if rp:
                print("VIOLATION property=%s replay=%s" % (self.pid, rp))
        self.prune_cache()
        shutil.rmtree(self.work, ignore_errors=True)
        if force_rc is not None:
            sys.stdout.flush()
            os._exit(force_rc)
        rc = 1 if real_v else 0
        self.log("done: %d violation(s), %d known finding(s), states=%d transitions=%d traces=%d wall=%.1fs" % (
            len(real_v), len(self.known_hits), cov["states"], cov["transitions"],
            cov["traces_validated_against_impl"], wall))
        sys.stdout.flush()
        os._exit(rc)


def read_ndjson(path):
    out = []
    with open(path) as f:
        for line in f:
            line = line.strip()
            if line:
                out.append(json.loads(line))
    return out
