"""C04 - nearest-neighbour lookup returns the value at a closest lattice point.

E1  CoordMC.tla: NNLaw - the rule {int, below, half, above} -> allowed lattice points equals "all lattice points
    within one half" on the whole rank grid (positions k + {0,1,4,7,8,9,12,15}/16).
E2  TLC-emitted (k, position) per axis, N in 1..4, concretised with nextafter in float and double (offsets up to
    2^30 where the precision still separates the positions) on nearest_neighbour<identity<long>> and over real
    strided/array storage.
E3  random coordinates, floor(x) up to 2^21 (float) / 2^30 (double): recorded (floor, relation to the half, chosen
    point) validated by Trace_Coord.
"""
import checks.coord_common as cc
import vf
LEVEL = "model_checking"


def run(ck):
    box, nn = cc.run_coord_mc(ck)
    cs = vf.read_ndjson(nn)
    ck.sample({"case": [c for c in cs if c["n"] == 2 and c["pos"] == [7, 8]][0]})
    fls = ["asan"] if ck.quick else ["asan", "rel", "dbg"]
    for sp, b, log in ck.build_many([{"name": "h_nn", "sources": "h_nn.cpp", "flavour": fl} for fl in fls]):
        fl = sp["flavour"]
        if not b:
            ck.compile_violation("h_nn/" + fl, log)
            continue
        rc, out, err = ck.run([b, "replay", nn], timeout=900)
        s = ck.harness_output("nn-replay-" + fl, rc, out, err)
        ck.cov["cases_replayed"] += s.get("cases", 0)
        ck.cov["impl_checks"] += s.get("checks", 0)
        tr = ck.path("trace-%s.ndjson" % fl)
        rc, out, err = ck.run([b, "trace", str(ck.seed), "400" if ck.quick else "4000", tr], timeout=900)
        s = ck.harness_output("nn-trace-" + fl, rc, out, err)
        if rc == 0:
            ck.validate_trace("Trace_Coord", "Trace_Coord.cfg", tr, "nn/trace-" + fl, n_traces=1, n_events=s.get("events", 0))
            ck.sample({"trace_event": open(tr).read().splitlines()[1]})
    ck.assume("round-to-nearest at an exact half may go either way (the property only asks for distance <= 1/2)")
