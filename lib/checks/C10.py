"""C10 - clamping makes every coordinate safe.

E1  CoordMC.tla (mode "clamp"): ClampSafe over all boxes lo<=hi and all rank-space coordinates (incl. the extremes
    of the type / +-inf), N<=2 exhaustive.
E2  TLC-emitted (box, coordinate, clamped coordinate) replayed for int/unsigned/size_t/float/double on
    clamp<identity> (returned coordinate) and clamp<probe> (queried coordinate, exactly one query, value), N=3,4
    by a rotating per-axis cover; clamp over array storage (integer coordinates), above linear / nearest
    (floating coordinates) and beneath linear, under ASan with wild coordinates.
"""
import checks.coord_common as cc
LEVEL = "model_checking"


def run(ck):
    box, nn = cc.run_coord_mc(ck)
    cc.box_replay(ck, box, only="clamp")
