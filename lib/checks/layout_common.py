"""Shared pieces of the C01 / C14 / C18 checks (storage-order layers)."""
import os
import vf


def have_bmi2():
    try:
        return "bmi2" in open("/proc/cpuinfo").read()
    except OSError:
        return False


def run_layout_mc(ck, sizing_only=False):
    """E1 for the write/read refinement machine; returns the path of the emitted cases."""
    out = ck.path("layout-cases.ndjson")
    cfg = "MC_LayoutWR.%s.cfg" % ck.tier
    if sizing_only:
        ck.tlc("LayoutWR", open(os.path.join(vf.SPEC, cfg)).read().replace("INVARIANTS Refines InStorage SizeLaw Injective", "INVARIANTS InStorage SizeLaw"),
               tag="LayoutWR-sizing", env={"VF_OUT": out}, timeout=1200)
    else:
        ck.tlc("LayoutWR", cfg, env={"VF_OUT": out}, timeout=1200)
        if not ck.quick:
            ck.tlc("LayoutWR", "MC_LayoutWR.hist2.cfg", timeout=1200)
    # unbounded, machine-checked (TLAPS): one Horner step p -> p*s + c is bounded and injective for EVERY extent, hence (by
    # induction on N) row-major is a bijection onto 0..Prod(s)-1 for all N and all extents; closed forms for N = 2, 3; the
    # per-level digit steps of the Morton (N = 2, 3) and Hilbert curves are instances of the same step
    ck.tlaps("LayoutProofs", [])
    ck.bound("layout_extent_bounds_per_dim", [12, 6, 4, 3] if ck.quick else [64, 12, 6, 4])
    return out


def layout_binaries(ck, flavours):
    specs = []
    for fl in flavours:
        for part in (1, 2, 3):
            specs.append({"name": "h_layout_p%d" % part, "sources": "h_layout.cpp", "flavour": fl,
                          "defines": ["VF_LAYOUT_PART=%d" % part]})
    res = ck.build_many(specs)
    out = {}
    for sp, b, log in res:
        if not b:
            ck.compile_violation("h_layout/%s/part%s" % (sp["flavour"], sp["defines"][0][-1]), log)
        else:
            out.setdefault(sp["flavour"], []).append(b)
    return out


def flavours_for(ck, quick=("asan",), thorough=("asan", "rel")):
    fl = list(quick if ck.quick else thorough)
    if have_bmi2():
        fl.append("bmi2")
        if not ck.quick:
            fl.append("relbmi2")
    else:
        ck.notes.append("host CPU lacks BMI2: the pdep variant is compiled but not executed")
    return fl
