"""Shared pieces of the C06 / C07 / C08 checks (binary format)."""
import os
import vf


def run_format_mc(ck):
    cases = ck.path("io-cases.ndjson")
    cfg = open(os.path.join(vf.SPEC, "MC_BinFormat.%s.cfg" % ck.tier)).read().replace("Seed = 1", "Seed = %d" % (ck.seed % 1000))
    ck.tlc("BinFormatMC", cfg, tag="MC_BinFormat." + ck.tier, env={"VF_OUT": cases}, timeout=1500)
    ck.cov["exhaustive"] = True
    ck.bound("catalogue_types", 20)
    ck.bound("value_sets_per_type", 2 if ck.quick else 6)
    return cases


def build_io(ck, flavours):
    out = {}
    for sp, b, log in ck.build_many([{"name": "h_io", "sources": "h_io.cpp", "flavour": fl} for fl in flavours]):
        if not b:
            ck.compile_violation("h_io/" + sp["flavour"], log)
        else:
            out[sp["flavour"]] = b
    return out


def roundtrip(ck, bins, cases, only):
    for fl, b in bins.items():
        rc, out, err = ck.run([b, "roundtrip", cases], timeout=1200)
        s = ck.harness_output("io-roundtrip-" + fl, rc, out, err, only=only)
        ck.cov["cases_replayed"] += s.get("cases", 0)
        ck.cov["impl_checks"] += s.get("checks", 0)
