"""C02 - a stack's lookup is the composition of its layers' maps.

E1  Stack.tla / StackMC.tla: Eval is defined by clauses that mention only a layer's own configuration and Eval of the
    rest of the stack; for every enumerated stack (one per grammar-adjacent pair of layer kinds, N and M rotating
    over 1..4 independently, plus seeded stacks of depth <= 5) TLC checks well-kindedness, that Eval is defined on a
    non-empty set of coordinates, the one-line law of the outermost layer (OuterLaw) and LatticeLaw.
E2  every stack becomes a generated translation unit that builds the real stack (distinct configuration values per
    layer, stored field Stored(c,q)), and compares view.at(vector) and view.at(scalars...) with Eval at every
    in-domain coordinate, exactly (dyadic grid), under assertions + ASan/UBSan.
"""
import checks.stack_common as sc
LEVEL = "model_checking"


def run(ck):
    st, ill = sc.run_stack_mc(ck)
    x = [c for c in st if len(c["layers"]) == 4][0]
    ck.sample({"stack": [l["k"] for l in x["layers"]], "n": x["n"], "m": x["m"], "configs": x["configs"], "queries": x["queries"][:3], "scale": x["scale"]})
    sc.run_stacks(ck, st, only="c02", second_flavour=None if ck.quick else "rel")
    ck.assume("the program space is covered pairwise (every grammar-adjacent pair of layer kinds) plus seeded samples, not exhaustively")
    ck.assume("coordinates lie on the dyadic grid 1/4 and stored values are small integers, so every library operation is exact")
