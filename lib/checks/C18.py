"""C18 - round_pow2 / ipow exact at every width; curve storage large enough.

E1  Numeric.tla: the two loops as state machines with wrap-around at W=8 (all inputs, all (b,e) pairs, loop
    invariants), W=12 (round_pow2), W=16 (round_pow2 all inputs, ipow sample); termination under WF; the
    lasso configuration must FAIL (non-termination above 2^(W-1): why the domain is bounded).
    Layout.tla (MC_Layout sizing invariants): every in-range coordinate's Morton/Hilbert position is below
    ipow(round_pow2(max extent), N), with the functional forms of the loops as coded.
E2  TLC-emitted tables replayed on the uint8_t/uint16_t/uint32_t/uint64_t instantiations.
E3  32- and 64-bit executions logged as 8-bit limbs and judged by Trace_Numeric (limb arithmetic in TLA+);
    thorough: every uint32_t input of round_pow2, one event per interval (2^(k-1), 2^k].
"""
import vf

LEVEL = "model_checking"


def run(ck):
    files = []
    for c in ("w8", "w12", "w16"):
        out = ck.path("cases-%s.ndjson" % c)
        ck.tlc("Numeric", "MC_Numeric.%s.cfg" % c, env={"VF_OUT": out}, timeout=900)
        files.append(out)
    r = ck.tlc("Numeric", "MC_Numeric.lasso.cfg", expect_ok=False, count=False, timeout=300)
    if "Temporal property Terminates was violated" not in r["out"]:
        ck.model_failure("expected TLC to exhibit the non-terminating lasso of round_pow2 above 2^(W-1)\n" + r["out"][-2000:])
    ck.notes.append("lasso configuration: TLC exhibits non-termination of round_pow2 for i > 2^(W-1), as expected")
    ck.bound("widths_exhaustive", {"round_pow2": [8, 12, 16], "ipow_all_pairs": [8], "ipow_sample": [16]})
    ck.cov["exhaustive"] = True
    # sizing consequence (shared with C01): Layout invariants
    import checks.layout_common as lc
    lcases = lc.run_layout_mc(ck, sizing_only=True)
    # ... and bound to the code: allocated size and every index of the enumerated extents on the real layers
    bins = lc.layout_binaries(ck, ["asan", "rel"])
    for b in bins.get("asan", []):
        rc, out, err = ck.run([b, "replay", lcases], timeout=1500)
        s = ck.harness_output("sizing-replay-" + b[-2:], rc, out, err)
        ck.cov["cases_replayed"] += s.get("cases", 0)
        ck.cov["impl_checks"] += s.get("checks", 0)
    for fl in ("asan", "rel"):          # the allocation law with assertions and sanitizers, and in the -O2 -DNDEBUG build
        if bins.get(fl):
            tr = ck.path("sizing-trace-%s.ndjson" % fl)
            rc, out, err = ck.run([bins[fl][0], "trace", str(ck.seed), "100" if ck.quick else "500", "1", "0", tr], timeout=900)
            s = ck.harness_output("sizing-trace-" + fl, rc, out, err)
            if rc == 0:
                ck.validate_trace("Trace_Layout", "Trace_Layout.cfg", tr, "sizing/trace-" + fl, n_traces=1, n_events=s.get("events", 0))
    c8 = vf.read_ndjson(files[0])
    ck.sample({"ipow_row": {"w": 8, "base": c8[4]["base"], "exps": c8[4]["exps"][:8], "pows": c8[4]["pows"][:8]}})
    for fl in (["asan"] if ck.quick else ["asan", "rel"]):
        b = ck.build("h_numeric", "h_numeric.cpp", fl)
        if not b:
            ck.compile_violation("h_numeric/" + fl, ck.last_build_log)
            continue
        rc, out, err = ck.run([b, "replay"] + files)
        s = ck.harness_output("numeric-replay-" + fl, rc, out, err)
        ck.cov["cases_replayed"] += s.get("cases", 0)
        ck.cov["impl_checks"] += s.get("checks", 0)
        tr = ck.path("trace-%s.ndjson" % fl)
        rc, out, err = ck.run([b, "trace", str(ck.seed), "200" if ck.quick else "2000", "100" if ck.quick else "600", tr])
        s = ck.harness_output("numeric-trace-" + fl, rc, out, err)
        if rc == 0:
            ck.validate_trace("Trace_Numeric", "Trace_Numeric.cfg", tr, "numeric/trace-" + fl, n_traces=1,
                              n_events=s.get("events", 0))
            ck.sample({"trace_events": open(tr).read().splitlines()[200:202]})
    b = ck.build("h_numeric", "h_numeric.cpp", "rel")
    if b:
        tr = ck.path("intervals.ndjson")
        kmax = 22 if ck.quick else 31
        rc, out, err = ck.run([b, "intervals", str(kmax), tr], timeout=1800)
        s = ck.harness_output("numeric-intervals", rc, out, err)
        if rc == 0:
            ck.validate_trace("Trace_Numeric", "Trace_Numeric.cfg", tr, "numeric/intervals", n_traces=1, n_events=s.get("events", 0))
            ck.bound("round_pow2_uint32_inputs_all_up_to", 2 ** kmax)
    ck.assume("widths 32 and 64 are judged through 8-bit-limb arithmetic in TLA+ (Limbs.tla), ipow exponents <= 130 there")
