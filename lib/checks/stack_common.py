"""Shared driver of C02 / C13 / C17: TLC enumerates stacks (spec/StackMC.tla), every stack becomes a translation unit
(lib/gen_stack.py) that is compiled against the current tree and run; compile failure of a well-kinded stack is a
violation, acceptance of an ill-kinded one likewise."""
import json
import os
import re
import subprocess
import vf
import gen_stack


def run_stack_mc(ck):
    cases = ck.path("stack-cases.ndjson")
    cfg = open(os.path.join(vf.SPEC, "MC_Stack.%s.cfg" % ck.tier)).read().replace("Seed = 1", "Seed = %d" % (ck.seed % 1000))
    ck.tlc("StackMC", cfg, tag="MC_Stack." + ck.tier, env={"VF_OUT": cases}, timeout=2400)
    cs = vf.read_ndjson(cases)
    st = [c for c in cs if c["kind"] == "stack"]
    ill = [c for c in cs if c["kind"] == "ill"]
    if len(st) < 50:
        ck.model_failure("vacuous: only %d stacks enumerated" % len(st))
    adj = set()
    for c in st:
        ks = [l["k"] for l in c["layers"]]
        adj.update(zip(ks, ks[1:]))
    ck.cov["stacks_enumerated"] = len(st)
    ck.cov["adjacent_layer_kind_pairs_covered"] = len(adj)
    ck.cov["max_depth"] = max(len(c["layers"]) for c in st)
    ck.cov["NM_combinations"] = len({(c["n"], c["m"]) for c in st})
    return st, ill


def run_stacks(ck, st, only, flavour="asanl", second_flavour=None):
    specs = []
    names = {}
    for i, c in enumerate(st):
        src = ck.path("stack_%03d.cpp" % i)
        names[i] = gen_stack.gen(c, src, i)
        specs.append({"name": "stack_%03d" % i, "sources": src, "flavour": flavour, "idx": i})
        if second_flavour:
            specs.append({"name": "stack_%03d" % i, "sources": src, "flavour": second_flavour, "idx": i})
    built = ck.build_many(specs)
    cmds, tags = [], []
    for sp, b, log in built:
        nm = names[sp["idx"]]
        if not b:
            errs = [l for l in log.splitlines() if "error" in l][:5]
            key = "compile/" + nm
            if only in ("c13", None):
                ck.violation(key, {"what": "a well-kinded stack does not support the field API: the generated program does not compile",
                                   "stack": nm, "errors": errs})
            else:
                ck.violation(key, {"what": "the stack's program does not compile against the current tree, so the property cannot hold for it",
                                   "stack": nm, "errors": errs})
            continue
        cmds.append([b]); tags.append(nm)
    for nm, (rc, out, err) in zip(tags, ck.run_many(cmds, timeout=600)):
        keep = []
        for line in out.splitlines():
            if line.startswith("MISMATCH "):
                k = line.split(" ", 2)[1]
                if only is None or k.startswith(only) or k.startswith("crash"):
                    keep.append(line.replace("MISMATCH " + k, "MISMATCH %s/%s" % (k, nm), 1))
            else:
                keep.append(line)
        s = ck.harness_output("stack-program/" + nm, rc, "\n".join(keep), err)
        ck.cov["cases_replayed"] += s.get("cases", 0)
        ck.cov["impl_checks"] += s.get("checks", 0)
    ck.cov["generated_translation_units"] = len(specs)


def run_ill(ck, ill):
    """ill-kinded catalogue: each must be rejected by the compiler."""
    specs = []
    for i, c in enumerate(ill):
        src = ck.path("ill_%02d.cpp" % i)
        gen_stack.gen_ill(c, src)
        specs.append({"name": "ill_%02d" % i, "sources": src, "flavour": "dbg", "idx": i})
    rejected = 0
    for sp, b, log in ck.build_many(specs):
        c = ill[sp["idx"]]
        if b:
            ck.violation("ill-kinded-accepted/" + re.sub(r"\W+", "_", c["rule"])[:60] + "/" + gen_stack.name_of(c["layers"]),
                         {"what": "a composition that violates a stated kind rule was accepted by the compiler", "rule": c["rule"],
                          "stack": gen_stack.name_of(c["layers"])})
        else:
            rejected += 1
    ck.cov["ill_kinded_rejected"] = rejected
    ck.cov["ill_kinded_total"] = len(ill)
