"""C07 - files are portable across interpolation method, storage precision and revisions.

E1  BinFormatMC.tla CompatLaw / WidenBackLaw over every (instance, reading type) pair: a file parses under exactly the
    types with the same on-disk shape (interpolators and other transparent layers, float<->double storage), with
    every configuration kept and values mapped through Float!Widen / Float!Narrow; FloatMC.tla: Narrow is
    round-to-nearest-even (ties, just above / below, subnormal results), Narrow o Widen = id.
E2  every pair replayed: written from T1, loaded as T2, layers compared with the specification's Retype (values that
    need rounding, subnormals); incompatible pairs must throw.  Float cases replayed on the hardware conversions.
    Golden files (/verif/golden, written by the pinned revision where it can): load, content = manifest, re-dump =
    bytes; E3: TLC parses every golden file's bytes (Trace_Golden) - stream in the language of the format.
"""
import os
import checks.io_common as io
import vf
LEVEL = "model_checking"


def run(ck):
    cases = io.run_format_mc(ck)
    fc = ck.path("float-cases.ndjson")
    ck.tlc("FloatMC", "MC_Float.cfg", env={"VF_OUT": fc}, timeout=600)
    cs = vf.read_ndjson(cases)
    x = [c for c in cs if c["kind"] == "cross" and c["ok"] and c["tid"] == 7 and c["t2"] == 5 and c["v"] % 2 == 0][0]
    ck.sample({"cross_load": {"written_from_type": 7, "loaded_as_type": 5, "expected_array_layer": x["layers"][-1]}})
    bins = io.build_io(ck, ["asan", "rel"] if ck.quick else ["asan", "rel", "dbg"])
    io.roundtrip(ck, bins, cases, only="io/")
    gold = os.path.join(vf.ROOT, "golden")
    for fl, b in bins.items():
        rc, out, err = ck.run([b, "floats", fc], timeout=600)
        s = ck.harness_output("io-floats-" + fl, rc, out, err)
        ck.cov["impl_checks"] += s.get("checks", 0)
        tr = ck.path("golden-%s.ndjson" % fl)
        rc, out, err = ck.run([b, "golden-check", os.path.join(gold, "manifest.ndjson"), gold, tr], timeout=600)
        s = ck.harness_output("golden-" + fl, rc, out, err)
        ck.cov["golden_files_checked"] = s.get("cases", 0)
        if rc == 0:
            ck.validate_trace("Trace_Golden", "Trace_Golden.cfg", tr, "golden/grammar-" + fl, n_traces=s.get("cases", 0), n_events=s.get("cases", 0))
    for fl, b in bins.items():       # big fields (beyond a stream buffer) written to and read from real files
        tr = ck.path("random-%s.ndjson" % fl)
        rc, out, err = ck.run([b, "random", cases, str(ck.seed), "60" if ck.quick else "400", tr], timeout=900)
        s = ck.harness_output("io-random-" + fl, rc, out, err)
        if rc == 0:
            ck.validate_trace("Trace_Golden", "Trace_Golden.cfg", tr, "io/random-dumps-" + fl, n_traces=s.get("events", 0), n_events=s.get("events", 0))
    # huge fields (10^5..10^6 vectors, beyond any block or buffer size) through real files: every scalar compared by the
    # harness (same precision bit-exact, other precision against the format's conversion, re-dump byte-identical); the stream's
    # structure and sampled scalars at block boundaries judged by Trace_Golden!THuge
    for fl, b in bins.items():
        tr = ck.path("huge-%s.ndjson" % fl)
        rc, out, err = ck.run([b, "huge", str(ck.seed), tr] + ([] if ck.quick else ["thorough"]), timeout=1500)
        s = ck.harness_output("io-huge-" + fl, rc, out, err)
        ck.cov["impl_checks"] += s.get("checks", 0)
        if rc == 0:
            ck.validate_trace("Trace_Golden", "Trace_Golden.cfg", tr, "io/huge-" + fl, n_traces=s.get("events", 0), n_events=s.get("events", 0))
    ck.bound("largest_field_vectors", 2 ** 20 + 3 if ck.quick else 2 ** 21 + 1)
    ck.assume("cross-width value comparison only on the finite value sets within float range, as the property states")
    ck.assume("16 of the 20 golden files were written by the pinned revision (byte-identical to the repaired tree); 4 layers cannot be written by it")
