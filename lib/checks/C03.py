"""C03 - linear interpolation is the N-linear interpolant over the input dimensions.

E1  InterpMC.tla: Linear-as-coded (per-branch corner convention, weights) = textbook tensor-product interpolant;
    lattice exactness; range; cells read = the 2^N vertices; weights sum to 1.  N<=2 (quick) / N<=3 (thorough)
    all queries on the D=4 grid, N=4,5 sampled.
E2  TLC emits whole fields + queries with integer numerators; replayed exactly for coordinate float/double x stored
    float/double x M in 1..4, over strided and Morton storage, with a clamp beneath (x beyond the grid), cells read
    observed through an N-d probe backend, and precision probes (fraction 2^-20 / 2^-30) that separate "computed in
    the coordinate precision" from "narrowed to float".
E3  random grids / values / dyadic points, N in 1..5: numerators recomputed by TLC from the logged corner values.
"""
import vf
LEVEL = "model_checking"


def run(ck):
    c1, c2 = ck.path("grid.ndjson"), ck.path("extra.ndjson")
    ck.tlc("InterpMC", "MC_Interp.%s.cfg" % ck.tier, env={"VF_OUT": c1, "VF_OUT2": c2}, timeout=1500)
    ck.cov["exhaustive"] = True
    # unbounded, machine-checked (TLAPS): for N = 1, 2, 3 in closed form and for EVERY denominator, fraction and corner value the
    # weights as coded sum to D^N, the weighted corner sum as coded equals the textbook recursion over the axes, the result lies
    # within the range of the corner values (N = 1, 2), and lattice points return the corner value
    ck.tlaps("InterpProofs", [], timeout=900)
    g = vf.read_ndjson(c1)
    x = [c for c in g if c["n"] == 2][1]
    ck.sample({"grid_case": {"n": 2, "ext": x["ext"], "D": x["D"], "cells": x["cells"][:3], "query": x["queries"][5]}})
    ck.bound("exhaustive_queries_up_to_N", 2 if ck.quick else 3)
    ck.bound("sampled_N", [3, 4, 5] if ck.quick else [4, 5])
    fls = ["asan"] if ck.quick else ["asan", "rel"]
    specs = [{"name": "h_linear_n%d" % n, "sources": "h_linear.cpp", "flavour": fl, "defines": ["VF_N=%d" % n]} for fl in fls for n in (1, 2, 3, 4, 5)]
    built = ck.build_many(specs)
    cmds, tags = [], []
    for sp, b, log in built:
        if not b:
            ck.compile_violation("h_linear/%s/%s" % (sp["flavour"], sp["defines"][0]), log)
            continue
        cmds.append([b, "replay", c1, c2]); tags.append(("replay", sp))
        cmds.append([b, "trace", str(ck.seed), "8" if ck.quick else "60", ck.path("trace-%s-%s.ndjson" % (sp["flavour"], sp["name"]))]); tags.append(("trace", sp))
    for (kind, sp), (rc, out, err), cmd in zip(tags, ck.run_many(cmds, timeout=1200), cmds):
        s = ck.harness_output("linear-%s-%s-%s" % (kind, sp["flavour"], sp["name"]), rc, out, err)
        if kind == "replay":
            ck.cov["cases_replayed"] += s.get("cases", 0)
            ck.cov["impl_checks"] += s.get("checks", 0)
        elif rc == 0:
            ck.validate_trace("Trace_Interp", "Trace_Interp.cfg", cmd[-1], "linear/trace-%s-%s" % (sp["flavour"], sp["name"]), n_traces=1,
                              n_events=s.get("events", 0))
    # lattice exactness when the stored value needs narrowing to the coordinate precision: oracle = Float!Narrow
    fc = ck.path("float-cases.ndjson")
    ck.tlc("FloatMC", "MC_Float.cfg", env={"VF_OUT": fc}, timeout=600)
    for sp, b, log in built:
        if b and sp["name"] == "h_linear_n1":
            rc, out, err = ck.run([b, "lattice", fc], timeout=600)
            s = ck.harness_output("linear-lattice-" + sp["flavour"], rc, out, err)
            ck.cov["cases_replayed"] += s.get("cases", 0)
            ck.cov["impl_checks"] += s.get("checks", 0)
    ck.assume("exact domain: |stored value| < 2^10 and <= 5 fractional bits per axis, so every float operation is exact; the size of "
              "the rounding error for arbitrary finite floats is not decided (DESIGN.md section 6)")
