"""C20 - compile-time sort and permutation predicate.

E1  StaticSeq.tla: the filter / concat / pivot-sort templates transcribed clause by clause; SortLaw, PermLaw and
    FilterLaw as invariants over every sequence (length <= 6 over {0..4}) and every pair (length <= 4 over
    {0..3}), plus seeded longer sequences with large values.
E2  every enumerated case with the result the specification prescribes becomes a constant expression in a
    generated translation unit; g++ evaluating covfie's metaprogram is the implementation under test.
"""
import os
import vf
import gen_c20

LEVEL = "model_checking"


def run(ck):
    cases = ck.path("cases.ndjson")
    cfg = open(os.path.join(vf.SPEC, "MC_StaticSeq.%s.cfg" % ck.tier)).read().replace("Seed = 1", "Seed = %d" % (ck.seed % 1000))
    ck.tlc("StaticSeq", cfg, tag="MC_StaticSeq." + ck.tier, env={"VF_OUT": cases}, timeout=900)
    cs = vf.read_ndjson(cases)
    if len(cs) < 1000:
        ck.model_failure("vacuous: %d cases" % len(cs))
    ck.cov["exhaustive"] = True
    ck.bound("sort_sequences", "length<=6 over {0..4}" if ck.quick else "length<=7 over {0..4}")
    ck.bound("permutation_pairs", "length<=4 over {0..3}" if ck.quick else "length<=4 over {0..4}")
    ck.sample({"sort_case": [c for c in cs if c["kind"] == "sort_rank"][0]})
    ck.sample({"perm_case": [c for c in cs if c["kind"] == "perm" and len(c["a"]) == 3 and c["r"] and c["a"] != c["b"]][0]})
    chunk = 9000
    specs = []
    for k in range(0, len(cs), chunk):
        src = ck.path("c20_%d.cpp" % (k // chunk))
        gen_c20.gen(cs[k:k + chunk], src)
        specs.append({"name": "c20_%d" % (k // chunk), "sources": src, "flavour": "dbg"})
    res = ck.build_many(specs)
    cmds = []
    for sp, b, log in res:
        if not b:
            ck.compile_violation("static_permutation/" + sp["name"], log)
        else:
            cmds.append([b])
    for i, (rc, out, err) in enumerate(ck.run_many(cmds)):
        s = ck.harness_output("c20-%d" % i, rc, out, err)
        ck.cov["cases_replayed"] += s.get("cases", 0)
        ck.cov["impl_checks"] += s.get("checks", 0)
    ck.cov["generated_translation_units"] = len(specs)
