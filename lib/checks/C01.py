"""C01 - storage-order layers behave as an N-dimensional array.

E1  LayoutWR.tla: the layer over array storage as a refinement of a plain N-d array (model[c] = cells[Idx(c)])
    for every layout, N in 1..4 and every extent vector in the bound: Refines, InStorage, SizeLaw, Injective.
E2  TLC emits (layout, extents, allocated size, every coordinate -> flat index); replayed on the real layers
    (a) over identity<size1> (flat index) and (b) over the real array backend obtained through the re-layout
    conversion: allocated size, values, write / read-back, under ASan+UBSan with assertions; portable and
    -mbmi2 builds; coordinate types size_t/unsigned/int, storage float/double, M in 1..4.
E2' Lifecycle.tla with long-lived views: "written through a view ... is the value read back" must also hold for a view kept
    across operations on the field object - a view denotes the storage, and keeps doing so when ownership of the storage
    moves; every transition of that model (<= 5 operations, 2 slots, 1 view) replayed on real fields under ASan.
E3  random extents beyond the bound: recorded (extents, coordinate, index, allocated size) events validated
    by Trace_Layout.
"""
import checks.layout_common as lc
import checks.lifecycle_common as lcc
import vf

LEVEL = "model_checking"


def run(ck):
    cases = lc.run_layout_mc(ck)
    ck.cov["exhaustive"] = True
    cs = vf.read_ndjson(cases)
    if len(cs) < 300:
        ck.model_failure("vacuous: only %d layout cases" % len(cs))
    mid = [c for c in cs if c["layout"] == "hilbert" and c["ext"] == [3, 2]][0]
    ck.sample({"case": {"layout": mid["layout"], "ext": mid["ext"], "size": mid["size"], "box": mid["box"]}})
    bins = lc.layout_binaries(ck, lc.flavours_for(ck))
    cmds, names = [], []
    for fl, bs in bins.items():
        for b in bs:
            cmds.append([b, "replay", cases])
            names.append("layout-replay-%s-%s" % (fl, b[-2:]))
    for name, (rc, out, err) in zip(names, ck.run_many(cmds, timeout=1500)):
        s = ck.harness_output(name, rc, out, err)
        ck.cov["cases_replayed"] += s.get("cases", 0)
        ck.cov["impl_checks"] += s.get("checks", 0)
    # code -> spec
    for fl, bs in bins.items():
        if fl.startswith("rel") and ck.quick:
            continue
        tr = ck.path("trace-%s.ndjson" % fl)
        rc, out, err = ck.run([bs[0], "trace", str(ck.seed), "120" if ck.quick else "600", "1", "0", tr], timeout=900)
        s = ck.harness_output("layout-trace-" + fl, rc, out, err)
        if rc == 0:
            ck.validate_trace("Trace_Layout", "Trace_Layout.cfg", tr, "layout/trace-" + fl, n_traces=1, n_events=s.get("events", 0))
    # long-lived views across ownership operations (strided + morton quick; + hilbert and portable morton thorough)
    fv, nv = lcc.gen(ck, "Gen_Lifecycle.views.cfg" if ck.quick else "Gen_Lifecycle.views4.cfg", "views", timeout=1800)
    lcc.replay(ck, [fv], ["asan"] if ck.quick else ["asan", "asan0"])
    ck.assume("coordinate scalar / storage / M combinations form a rotating cover (full cross on layout x N x coordinate type)")
