"""C17 - a field's configuration can be read back and used to rebuild it.

E1  Stack!Configs: the i-th configuration belongs to the i-th layer from the outside; StackMC enumerates stacks with
    pairwise distinct configuration values and helper chains of depth 2..10 in which adjacent layers have the SAME
    configuration type with DIFFERENT values (clamp boxes; the strided<size1>/array coincidence).
E2  generated translation units walk get_backend() from the outermost to the innermost layer on owning and non-owning
    data (types checked statically), compare every get_configuration() with the constructor argument, rebuild a second
    field from the reported configurations and the storage and compare it at every query, and construct through
    make_parameter_pack_for comparing every layer's configuration.
"""
import checks.stack_common as sc
LEVEL = "model_checking"


def run(ck):
    st, ill = sc.run_stack_mc(ck)
    x = [c for c in st if len(c["layers"]) >= 9][0]
    ck.sample({"helper_chain_depth": len(x["layers"]), "configs": x["configs"][:4]})
    sc.run_stacks(ck, st, only="c17")
    ck.bound("positional_helper_depths", "1..10")
