"""C17 - a field's configuration can be read back and used to rebuild it.

E1  Stack!Configs: the i-th configuration belongs to the i-th layer from the outside; StackMC enumerates stacks with
    pairwise distinct configuration values and helper chains of depth 2..10 in which adjacent layers have the SAME
    configuration type with DIFFERENT values (clamp boxes; the strided<size1>/array coincidence).
E2  generated translation units walk get_backend() from the outermost to the innermost layer on owning and non-owning
    data (types checked statically), compare every get_configuration() with the constructor argument, rebuild a second
    field from the reported configurations and the storage and compare it at every query, and construct through
    make_parameter_pack_for comparing every layer's configuration.
"""
import checks.stack_common as sc
LEVEL = "model_checking"


def run(ck):
    st, ill = sc.run_stack_mc(ck)
    x = [c for c in st if len(c["layers"]) >= 9][0]
    ck.sample({"helper_chain_depth": len(x["layers"]), "configs": x["configs"][:4]})
    sc.run_stacks(ck, st, only="c17")
    ck.bound("positional_helper_depths", "1..10")
    # read-back only, for the configuration values the evaluated stacks above cannot carry: boxes (clamp, out-of-range
    # default) in every order relation of their bounds per axis (lo < hi, lo = hi, lo > hi).  StackMC's boxes have
    # lo <= hi because every enumerated stack is also evaluated; a configuration is nevertheless a value that must be
    # reported as given on every constructor path (positional pack, (configuration, backend), copy, move, assignment).
    for fl in (("asan", "rel") if not ck.quick else ("asan",)):
        b = ck.build("h_cfgbox", "h_cfgbox.cpp", fl)
        if b:
            rc, out, err = ck.run([b], timeout=300)
            s = ck.harness_output("cfgbox-" + fl, rc, out, err)
            ck.cov["impl_checks"] += s.get("checks", 0)
            ck.cov["cases_replayed"] += s.get("cases", 0)
    ck.bound("box_bound_order_relations_per_axis", ["lo<hi", "lo=hi", "lo>hi"])
