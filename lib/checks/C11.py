"""C11 - out-of-range lookups return the default without touching the backend.

E1  CoordMC.tla (mode "backup"): a state machine with a ghost counter of backend queries; BackupLaw invariant and
    the action properties NoQueryOutside / OneQueryInside over all boxes and rank-space coordinates.
E2  TLC-emitted (box, coordinate, inside?) replayed on backup<probe>: returned value (default or the probe's value
    at exactly that coordinate) and the probe's query counter after every lookup; int/unsigned/size_t/float/
    double, N in 1..4 (3,4 by rotating cover), M=2.
"""
import checks.coord_common as cc
LEVEL = "model_checking"


def run(ck):
    box, nn = cc.run_coord_mc(ck)
    cc.box_replay(ck, box, only="backup")
