"""C19 - nd_map visits every index tuple of the box exactly once.

E1  NdMap.tla: the loop nest as a state machine, all extent vectors (extents 0..B, dims 1..5):
    OnlyInBoxOnce / AtReturn invariants, FreshCalls action property, termination; the recursion-as-coded
    (Visits) is proved equal to the loop nest on the same domain.
E2  the same extent vectors with their boxes are emitted by TLC and replayed on the real nd_map
    (multiset comparison, ASan/UBSan + NDEBUG builds).
E3  random larger vectors: every callback invocation of the real nd_map is logged as a Visit event and
    the order-free trace spec Trace_NdMap accepts only histories that visit each tuple of the box once.
"""
LEVEL = "model_checking"


def run(ck):
    cases = ck.path("cases.ndjson")
    r = ck.tlc("NdMap", "MC_NdMap.%s.cfg" % ck.tier, env={"VF_OUT": cases}, timeout=900)
    ck.bound("extent_bounds_per_dim", [4, 4, 4, 3, 2] if ck.quick else [12, 8, 5, 4, 3])
    ck.cov["exhaustive"] = True
    import vf
    cs = vf.read_ndjson(cases)
    if len(cs) < 100:
        ck.model_failure("vacuous: only %d extent vectors emitted" % len(cs))
    ck.sample({"case": {"ext": cs[len(cs) // 2]["ext"], "count": cs[len(cs) // 2]["count"]}})
    for fl in (["asan"] if ck.quick else ["asan", "rel"]):
        b = ck.build("h_ndmap", "h_ndmap.cpp", fl)
        if not b:
            ck.compile_violation("h_ndmap/" + fl, ck.last_build_log)
            continue
        rc, out, err = ck.run([b, "replay", cases])
        s = ck.harness_output("ndmap-replay-" + fl, rc, out, err)
        ck.cov["cases_replayed"] += s.get("cases", 0)
        ck.cov["impl_checks"] += s.get("checks", 0)
        # code -> spec
        tr = ck.path("trace-%s.ndjson" % fl)
        execs = 60 if ck.quick else 400
        rc, out, err = ck.run([b, "trace", str(ck.seed), str(execs), "4000" if ck.quick else "20000", tr])
        s = ck.harness_output("ndmap-trace-" + fl, rc, out, err)
        if rc == 0:
            t = ck.tlc("Trace_NdMap", "Trace_NdMap.cfg", tag="trace-" + fl, workers=1, env={"VF_TRACE": tr},
                       mode="trace", expect_ok=False, timeout=900)
            if t["rc"] == 0:
                ck.cov["traces_validated_against_impl"] += execs
                ck.cov["trace_events_validated"] += s.get("events", 0)
            elif "TRACE-REJECTED" in t["out"]:
                import re
                m = re.search(r"TRACE-REJECTED matched-prefix\", (\d+)", t["out"])
                k = int(m.group(1)) if m else -1
                lines = open(tr).read().splitlines()
                ck.violation("ndmap/trace-rejected", {"matched_prefix": k, "next_event": lines[k] if 0 <= k < len(lines) else None,
                                                      "previous": lines[max(0, k - 3):k]})
            else:
                ck.model_failure("Trace_NdMap failed unexpectedly:\n" + t["out"][-3000:])
            ck.sample({"trace_head": open(tr).read().splitlines()[:4]})
