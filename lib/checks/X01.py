"""X01 - beyond the listed properties: a shipped example program explained by the specification.

examples/core/slice3dto2d.cpp is built against the current tree of the library and run on files of catalogue type 6
(affine<linear<strided<size3, array<float3>>>>, random extents 1..6 per axis, random finite bit patterns) written by the real
library.  The program loads the file, builds a field from the INNER storage object of the loaded field
(make_parameter_pack(f.backend().get_backend().get_backend()): Lifecycle!Adopt, const form), copies one coordinate plane
through views into a new strided<size2, array<float3>> field and dumps it.  TLC parses the input and the output file
independently (BinFormat!Parse) and Trace_Golden!TSlice demands that the output is exactly that plane.

Not a check of one of the twenty properties: it is registered nowhere in MANIFEST.json; a failure here points at whichever of
C01 / C06 / C07 / C12 the mutated code belongs to.  Evidence goes to extras/evidence/.
"""
import json
import os
import vf

LEVEL = "model_checking"
BOOST = ["-Wl,-Bstatic", "-lboost_log_setup", "-lboost_log", "-lboost_program_options", "-lboost_filesystem", "-lboost_thread",
         "-lboost_regex", "-lboost_chrono", "-lboost_atomic", "-Wl,-Bdynamic", "-pthread"]


def limbs(b):
    if len(b) % 2:
        b = b + b"\0"
    return [b[i] | (b[i + 1] << 8) for i in range(0, len(b), 2)]


def run(ck):
    src = os.path.join(vf.REPO, "examples/core/slice3dto2d.cpp")
    if not os.path.exists(src):
        src = "/repo/examples/core/slice3dto2d.cpp"          # scratch copies of the library carry only lib/
    io = ck.build("h_io", "h_io.cpp", "rel")
    sl = ck.build("ex_slice3dto2d", [src], "rel", libs=BOOST, soft=True)
    if not io or not sl:
        ck.compile_violation("pipeline/build", ck.last_build_log)
        return
    d = ck.path("pipeline")
    os.makedirs(d, exist_ok=True)
    n = 6 if ck.quick else 40
    rc, out, err = ck.run([io, "gen6", str(ck.seed), str(n), d], timeout=600)
    ck.harness_output("pipeline-gen6", rc, out, err)
    tr = ck.path("slice-trace.ndjson")
    events = 0
    with open(tr, "w") as f:
        for q in range(n):
            inp = os.path.join(d, "in%d.cvfield" % q)
            raw = open(inp, "rb").read()
            # extents: field hdr 8 + affine hdr 8 + 48 bytes of matrix + strided hdr 8, then three u64
            off = 8 + 8 + 48 + 8
            ext = [int.from_bytes(raw[off + 8 * k: off + 8 * k + 8], "little") for k in range(3)]
            for ax, name in enumerate("xyz"):
                for k in sorted({0, ext[ax] - 1, ext[ax] // 2}):
                    outp = os.path.join(d, "out.cvfield")
                    if os.path.exists(outp):
                        os.remove(outp)
                    rc, o, e = ck.run([sl, "-i", inp, "-o", outp, "-a", name, "-s", str(k)], timeout=120)
                    if rc != 0 or not os.path.exists(outp):
                        ck.violation("pipeline/slice3dto2d-failed", {"rc": rc, "ext": ext, "axis": name, "slice": k, "stderr": (e or "")[-800:]})
                        continue
                    f.write(json.dumps({"e": "slice", "axis": ax + 1, "k": k, "in": limbs(raw), "out": limbs(open(outp, "rb").read()), "odd": 0}) + "\n")
                    events += 1
    ck.cov["program_runs"] = events
    if events:
        ck.validate_trace("Trace_Golden", "Trace_Golden.cfg", tr, "pipeline/slice3dto2d", n_traces=events, n_events=events)
    ck.bound("input_extents_per_axis", "1..6")
    ck.assume("the example's own argument handling (Boost.Program_options, logging) is outside the specification")
