"""C16 - concurrent lookups are race-free and deterministic.

E1  Threads.tla: T threads, each a program of lookups (expanded into the single-cell reads of their footprint, per
    storage order and interpolator) and writes to logical coordinates disjoint from everyone else's; ALL interleavings:
    RaceFree, InBounds, Deterministic, termination.  T=2 (quick), T=3 and larger extents (thorough).
E3  binding: (i) the TLC-enumerated programs run on real threads released together, per-thread results compared with
    the specification's sequential results; (ii) hidden state: the same kind of programs with T in {2,4,8,16}, shared
    and per-thread views, every storage order and interpolator including the 4-D generic linear branch, under
    ThreadSanitizer (happens-before: schedule-independent for the accesses performed) with per-thread digests equal to
    the sequential run; (iii) footprint conformance and const / trivially-copyable views are C03, C11, C01 and C13.
"""
import vf
LEVEL = "model_checking"


def run(ck):
    cases = ck.path("thread-cases.ndjson")
    ck.tlc("Threads", "MC_Threads.quick.cfg", env={"VF_OUT": cases}, timeout=900)
    if not ck.quick:
        ck.tlc("Threads", "MC_Threads.t3.cfg", timeout=2400)
        ck.tlc("Threads", "MC_Threads.ext32.cfg", timeout=2400)
    ck.bound("threads_all_interleavings", 2 if ck.quick else 3)
    ck.cov["exhaustive"] = True
    cs = vf.read_ndjson(cases)
    ck.sample({"thread_program": [c for c in cs if c["interp"] == "linear" and c["layout"] == "hilbert"][0]})
    # the library is header-only: whether its lookups are reentrant must not depend on the user's build flags.  Besides the
    # usual -pthread builds, the same programs are built WITHOUT -pthread (no _REENTRANT; glibc >= 2.34 runs std::thread
    # without it), under ThreadSanitizer and at -O2 -DNDEBUG.
    res = ck.build_many([{"name": "h_threads", "sources": "h_threads.cpp", "flavour": "tsan", "libs": ["-pthread"]},
                         {"name": "h_threads", "sources": "h_threads.cpp", "flavour": "asan", "libs": ["-pthread"]},
                         {"name": "h_threads_nopthread", "sources": "h_threads.cpp", "flavour": "tsan", "libs": []},
                         {"name": "h_threads_nopthread", "sources": "h_threads.cpp", "flavour": "rel", "libs": []}])
    for sp, b, log in res:
        fl = sp["flavour"] + ("-nopthread" if not sp["libs"] else "")
        if not b:
            ck.compile_violation("h_threads/" + fl, log)
            continue
        stride = (8 if ck.quick else 1) * 16 * (4 if not sp["libs"] else 1)
        cmds = [[b, "replay", cases, str(stride), str(o)] for o in range(16)]
        for rc, out, err in ck.run_many(cmds, timeout=1500):
            s = ck.harness_output("threads-replay-" + fl, rc, out, err)
            ck.cov["cases_replayed"] += s.get("cases", 0)
            ck.cov["impl_checks"] += s.get("checks", 0)
            ck.cov["traces_validated_against_impl"] += s.get("cases", 0)
        ts = [2, 4, 8, 16]
        cmds = [[b, "stress", str(ck.seed + k), str(t)] for t in ts for k in range(1 if ck.quick else 6)]
        for rc, out, err in ck.run_many(cmds, jobs=4, timeout=1500):
            s = ck.harness_output("threads-stress-" + fl, rc, out, err)
            ck.cov["impl_checks"] += s.get("checks", 0)
        ck.cov["stress_thread_counts"] = ts
    ck.cov["build_configurations"] = ["-fsanitize=thread -pthread", "ASan+UBSan -pthread", "-fsanitize=thread without -pthread", "-O2 -DNDEBUG without -pthread"]
    ck.assume("absence of hidden shared state is monitored by ThreadSanitizer on the executions performed, not proved; the specification decides schedules given that premise")
