"""C12 - fields stay independent values under any history of copy, move, assign, convert.

E1  Lifecycle.tla (AssignImpl = "fixed"): histories of ANY length over 2 slots (unbounded mode: finite state space, full
    reachability) and Refines, NoAlias, NoUseAfterFree, NoDoubleFree, NoLeak, ConfigKept,
    RoundTrip + SourceUnchanged over all histories of 2 slots (<=5 ops quick, <=6 thorough) and 3 slots (<=5);
    the "pinned" configuration must FAIL with the self-copy-assignment counterexample (documented defect).
E3  a seeded random driver (independent of TLC's enumeration) performs 70-operation histories on real fields; every logged
    operation and the observed projection of every slot must be a step of the specification (Trace_Lifecycle).
E2  LifecycleGen: one witness behaviour per transition of the abstract state graph (VIEW hides the history) plus
    seeded simulated histories of 30 operations; each is replayed on real fields and after every step all values of
    all live fields, their configurations and the number of live storage blocks (replaced operator new[]/delete[])
    are compared with the specification's state; ASan+LSan+UBSan with assertions, and an NDEBUG build.
"""
import checks.lifecycle_common as lc
LEVEL = "model_checking"


def run(ck):
    ck.tlc("Lifecycle", "MC_Lifecycle.quick.cfg", timeout=900)
    # histories of ANY length: with freed block ids recycled the state space of the repaired model is finite and TLC explores
    # all of it (2 slots, strided + morton, construct / write / copy and move construction and assignment incl. self /
    # conversion / destruction)
    ck.tlc("Lifecycle", "MC_Lifecycle.unboundedq.cfg", timeout=1800)          # all operations, extents {2x1}
    if not ck.quick:
        ck.tlc("Lifecycle", "MC_Lifecycle.unbounded.cfg", timeout=1800)       # core operations, extents {2x1, 1x3}
    ck.bound("unbounded_history_configuration", "2 slots; all operations on extents {2x1}" + ("" if ck.quick else "; core operations on extents {2x1, 1x3}"))
    if not ck.quick:
        ck.tlc("Lifecycle", "MC_Lifecycle.thorough2.cfg", timeout=1800)
        ck.tlc("Lifecycle", "MC_Lifecycle.thorough3.cfg", timeout=1800)
    r = ck.tlc("Lifecycle", "MC_Lifecycle.pinned.cfg", expect_ok=False, count=False, timeout=600)
    if "Invariant Refines is violated" not in r["out"]:
        ck.model_failure("expected the pinned copy-assignment model to violate Refines through SelfCopyAssign\n" + r["out"][-1500:])
    ck.notes.append("pinned configuration: TLC reproduces Construct; Write; CopyAssign(s,s) violating Refines (repaired in /repo, see KNOWN_FINDINGS.txt)")
    ck.bound("slots_x_ops_exhaustive", "2x5" if ck.quick else "2x6, 3x5")
    files = []
    f, n = lc.gen(ck, "Gen_Lifecycle.quick.cfg" if ck.quick else "Gen_Lifecycle.thorough.cfg", "transitions", timeout=1800)
    files.append(f)
    lc.sample_history(ck, f)
    # long-lived views: a view made from a field keeps denoting the same storage across moves of the field object and is
    # dead once its owner is assigned to or destroyed (Lifecycle.tla: view, KeepViews); every transition of that model
    fv, nv = lc.gen(ck, "Gen_Lifecycle.views.cfg", "views", timeout=1800)
    files.append(fv)
    # lineage-split witnesses: a ghost carried by every object records the last sizes it (or what it was copied / moved from)
    # had, so TLC emits a witness for every transition out of states that differ only in HOW an object got its value
    # (3 slots with canonical allocation, 1-D row-major fields of 2 and 3 cells, <= 7 ownership operations)
    fl, nl = lc.gen(ck, "Gen_Lifecycle.lineageq.cfg" if ck.quick else "Gen_Lifecycle.lineage.cfg", "lineage", timeout=3000)
    lc.replay(ck, [fl], ["asan"] if ck.quick else ["asan", "rel"], sample=2 if ck.quick else 1)
    import os
    os.remove(fl)
    ck.bound("lineage_witness_configuration", "3 slots, sizes {2,3}, <=7 ops, lineage length %d" % (2 if ck.quick else 3))
    # conversions between all four layouts in 2 and 3 dimensions (shared with C05): every transition of Construct / Write /
    # Convert / ConvertMove over 3 slots
    fc, nc = lc.gen(ck, "Gen_Lifecycle.convq.cfg" if ck.quick else "Gen_Lifecycle.conv.cfg", "conv", timeout=2400)
    lc.replay(ck, [fc], ["asan"])
    sim = 40 if ck.quick else 600
    f2, n2 = lc.gen(ck, "Gen_Lifecycle.sim.cfg", "sim", simulate=sim, depth=31, timeout=900)
    files.append(f2)
    ck.bound("simulated_history_length", 30)
    lc.replay(ck, files, ["asan"] if ck.quick else ["asan", "rel", "asan0"])
    # E3, code -> spec: a seeded random driver performs long histories on real fields and logs every operation with the
    # observed projection of every slot; Trace_Lifecycle explains each event by the corresponding action of the specification
    b = ck.build("h_lifecycle", "h_lifecycle.cpp", "asan")
    if b:
        for k in range(2 if ck.quick else 12):
            tr = ck.path("drive-%d.ndjson" % k)
            # odd runs: every field 1-D row-major with 2 or 3 cells, so that chains of assignments between differently sized
            # fields are dense
            rc, out, err = ck.run([b, "drive", str(ck.seed * 100 + k), "6", "70", tr] + (["focus"] if k % 2 else []), timeout=600)
            s = ck.harness_output("lifecycle-drive", rc, out, err)
            if rc == 0:
                ck.validate_trace("Trace_Lifecycle", "Trace_Lifecycle.cfg", tr, "lifecycle/driver-trace", n_traces=6, n_events=s.get("events", 0))
        ck.bound("driver_history_length", 70)
    ck.assume("moved-from fields and the target of a self-move-assignment are unspecified: only destruction and assignment to them are exercised")
    ck.assume("a long-lived view is used only while the specification keeps it valid: until the field owning its storage is "
              "assigned to, self-assigned, converted from by move, or destroyed; it is required to survive moves of the field object")
