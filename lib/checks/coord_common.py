"""Shared E1 run for C04 / C10 / C11 (rank-space coordinate maps)."""


def run_coord_mc(ck):
    box = ck.path("box-cases.ndjson")
    nn = ck.path("nn-cases.ndjson")
    ck.tlc("CoordMC", "MC_Coord.%s.cfg" % ck.tier, env={"VF_OUT": box, "VF_OUT2": nn}, timeout=900)
    ck.cov["exhaustive"] = True
    # unbounded, machine-checked versions of the per-axis laws (clamp in box / idempotent / = median; nearest = within one half)
    ck.tlaps("CoordProofs", ["Coord"])
    return box, nn


def box_replay(ck, box, only):
    import vf
    fls = ["asan"] if ck.quick else ["asan", "rel"]
    for sp, b, log in ck.build_many([{"name": "h_box", "sources": "h_box.cpp", "flavour": fl} for fl in fls]):
        if not b:
            ck.compile_violation("h_box/" + sp["flavour"], log)
            continue
        rc, out, err = ck.run([b, "replay", box, only], timeout=900)
        s = ck.harness_output("box-replay-" + sp["flavour"], rc, out, err, only=only)
        ck.cov["cases_replayed"] += s.get("cases", 0)
        ck.cov["impl_checks"] += s.get("checks", 0)
        # code -> spec: random boxes / coordinates abstracted to order relations
        tr = ck.path("box-trace-%s.ndjson" % sp["flavour"])
        rc, out, err = ck.run([b, "trace", str(ck.seed), "300" if ck.quick else "3000", tr, only], timeout=900)
        s = ck.harness_output("box-trace-" + sp["flavour"], rc, out, err)
        if rc == 0:
            mine = ck.path("box-trace-%s-%s.ndjson" % (only, sp["flavour"]))     # only this property's events
            with open(mine, "w") as f:
                f.writelines(l for l in open(tr) if ('"e":"%sbox"' % only) in l)
            ck.validate_trace("Trace_Coord", "Trace_Coord.cfg", mine, only + "/random-order-relations-" + sp["flavour"], n_traces=1, n_events=s.get("events", 0))
    cs = vf.read_ndjson(box)
    ck.sample({"case": [c for c in cs if c["n"] == 2 and not c["inside"] and c["x"][0] == -100][3]})
    ck.bound("coordinate_types", ["int", "unsigned", "size_t", "float", "double"])
    ck.bound("dims_exhaustive", 2)
    ck.bound("dims_rotating_cover", [3, 4])
    ck.assume("ranks -100/100 are concretised to lowest()/max() and, for floating types, -inf/+inf; NaN excluded as the property states")
