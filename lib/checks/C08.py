"""C08 - truncated or mis-tagged input is rejected with an exception.

E1  Reader.tla (ReadImpl = "fixed"): the loader as a state machine over a faulty limb stream; for every catalogue
    instance in scope and every fault - writer interrupted after any limb, any header/footer/tag/width limb replaced,
    stream failing at the n-th read, file read with an incompatible stack - NeverReturnsOnFault, <>threw,
    termination; consistency with the functional parser.  The two "pinned" configurations must FAIL (documented
    defect: abort in assertion builds, decision on an uninitialised word in NDEBUG builds).
E2  every enumerated fault is applied to the real dump (truncation at EVERY BYTE offset: both bytes of each limb) and
    loaded by the real loader in a forked child behind a fault-injecting streambuf; the observed outcome (threw /
    returned / aborted / signal / hang / sanitizer or valgrind report) must be `threw`.  Assertion+ASan build and
    NDEBUG build; a sample under valgrind (decisions on uninitialised data).
"""
import os
import shutil
import checks.io_common as io
import vf
LEVEL = "model_checking"


def run(ck):
    cases = io.run_format_mc(ck)
    faults = ck.path("faults.ndjson")
    cfg = open(os.path.join(vf.SPEC, "MC_Reader.%s.cfg" % ck.tier)).read().replace("Seed = 1", "Seed = %d" % (ck.seed % 1000))
    ck.tlc("Reader", cfg, tag="MC_Reader." + ck.tier, env={"VF_OUT2": faults}, timeout=2400)
    for k in ("pinned_ndebug", "pinned_debug"):
        r = ck.tlc("Reader", "MC_Reader.%s.cfg" % k, expect_ok=False, count=False, timeout=600)
        if "is violated" not in r["out"] and "was violated" not in r["out"]:
            ck.model_failure("expected the %s reader model to violate C08\n%s" % (k, r["out"][-1500:]))
    ck.notes.append("pinned reader models: TLC reproduces `returned`/`aborted` on a truncated stream (repaired in /repo, see KNOWN_FINDINGS.txt)")
    fs = vf.read_ndjson(faults)
    kinds = {}
    for f in fs:
        kinds[f["fault"]["f"]] = kinds.get(f["fault"]["f"], 0) + 1
    ck.cov["faults_enumerated"] = kinds
    ck.sample({"fault_cases": [fs[0], [f for f in fs if f["fault"]["f"] == "corrupt"][3], [f for f in fs if f["fault"]["f"] == "wrongtype"][0]]})
    bins = io.build_io(ck, ["asan", "rel"])
    for fl, b in bins.items():
        cmds = [[b, "faults", cases, faults, "8", str(o)] for o in range(8)]
        outcomes = {}
        for rc, out, err in ck.run_many(cmds, timeout=1500):
            s = ck.harness_output("io-faults-" + fl, rc, out, err)
            ck.cov["cases_replayed"] += s.get("cases", 0)
            ck.cov["impl_checks"] += s.get("checks", 0)
            for k, v in s.get("outcomes", {}).items():
                outcomes[k] = outcomes.get(k, 0) + v
        ck.cov["observed_outcomes_" + fl] = outcomes
    if shutil.which("valgrind"):
        vb = io.build_io(ck, ["relg"]).get("relg")
        if vb:
            stride = 40 if ck.quick else 6
            rc, out, err = ck.run(["valgrind", "-q", "--trace-children=yes", "--error-exitcode=99", vb, "faults", cases, faults, str(stride), "0"], timeout=1700)
            s = ck.harness_output("io-faults-valgrind", rc, out, err)
            ck.cov["valgrind_sample"] = {"stride": stride, "cases": s.get("cases", 0), "outcomes": s.get("outcomes", {})}
    ck.cov["exhaustive"] = True
    ck.assume("payload alphabets exclude the two magic words (a payload containing a footer can make a width-corrupted file parse: a property of the format)")
    ck.assume("count words are not corrupted (not in the property's fault list); absurd counts are modelled as throwing")
