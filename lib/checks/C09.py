"""C09 - the affine layer maps x to Ax+t; affine transforms compose as functions.

E1  AlgebraMC.tla: FunctionLaw, ComposeLaw (compose-as-coded = textbook), ChainLaw (<= 4 factors, any association),
    FactoryLaw; N=1 all matrices over -3..3, N=2..4 seeded samples.
E2  emitted cases replayed exactly on covfie::algebra (float and double) and on affine<identity> views.
    The same cases scaled by powers of two (matrix entries down to 2^-1035, coordinates up to 2^1018: every operation
    still exact); the enumerated products formed concurrently by 8 threads (TSan, and -O2 without -pthread).
E3  random integer operands (double: products beyond 2^24, float: below) computed by the real code, recomputed by TLC.
"""
import os
import vf
LEVEL = "model_checking"


def run(ck):
    cases = ck.path("cases.ndjson")
    cfg = open(os.path.join(vf.SPEC, "MC_Algebra.%s.cfg" % ck.tier)).read().replace("Seed = 1", "Seed = %d" % (ck.seed % 1000))
    ck.tlc("AlgebraMC", cfg, tag="MC_Algebra." + ck.tier, env={"VF_OUT": cases}, timeout=1500)
    # unbounded, machine-checked (TLAPS): the composition law for N = 1 and (row-wise) N = 2 over ALL integers
    ck.tlaps("AlgebraProofs", [], timeout=900)
    cs = vf.read_ndjson(cases)
    ck.sample({"case": [c for c in cs if c["kind"] == "pair" and c["n"] == 2][7]})
    ck.bound("N1", "all matrices with entries -3..3, all pairs")
    ck.bound("sampled_matrices_N2_N3_N4", [24, 10, 8] if ck.quick else [60, 30, 20])
    fls = ["asan"] if ck.quick else ["asan", "rel", "dbg"]
    for sp, b, log in ck.build_many([{"name": "h_algebra", "sources": "h_algebra.cpp", "flavour": fl} for fl in fls]):
        fl = sp["flavour"]
        if not b:
            ck.compile_violation("h_algebra/" + fl, log)
            continue
        rc, out, err = ck.run([b, "replay", cases], timeout=900)
        s = ck.harness_output("algebra-replay-" + fl, rc, out, err)
        ck.cov["cases_replayed"] += s.get("cases", 0)
        ck.cov["impl_checks"] += s.get("checks", 0)
        tr = ck.path("trace-%s.ndjson" % fl)
        rc, out, err = ck.run([b, "trace", str(ck.seed), "60" if ck.quick else "500", tr], timeout=900)
        s = ck.harness_output("algebra-trace-" + fl, rc, out, err)
        if rc == 0:
            ck.validate_trace("Trace_Algebra", "Trace_Algebra.cfg", tr, "algebra/trace-" + fl, n_traces=1, n_events=s.get("events", 0))
    # hidden state: the products of the enumerated pairs formed by 8 threads at once, each on private operands, under
    # ThreadSanitizer and in the plain -O2 build (with and without -pthread: the library is header-only)
    for sp, b, log in ck.build_many([{"name": "h_algebra_t", "sources": "h_algebra.cpp", "flavour": "tsan", "libs": ["-pthread"]},
                                     {"name": "h_algebra_t", "sources": "h_algebra.cpp", "flavour": "rel", "libs": []}]):
        if not b:
            ck.compile_violation("h_algebra/threads-" + sp["flavour"], log)
            continue
        rc, out, err = ck.run([b, "threads", cases, "8"], timeout=900)
        s = ck.harness_output("algebra-threads-" + sp["flavour"], rc, out, err)
        ck.cov["impl_checks"] += s.get("checks", 0)
    ck.assume("exact domain only: the relative-error bound for arbitrary finite floats is not decided by this technique (DESIGN.md section 6)")
