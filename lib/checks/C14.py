"""C14 - storage orders follow their published curves.

E1  LayoutCurve.tla: row-major as coded = Horner form; Morton portable loop = mask/pdep = bit interleave for all
    coordinate vectors below 2^b per axis plus boundary bit patterns; Hilbert xy2d-as-coded inverted by the
    published d2xy (bijection), origin, edge adjacency for every k in the bound.
E2  TLC-emitted Morton coordinate vectors and Hilbert walks replayed on the real layers over identity<size1> and
    on the static calculate_index functions, portable and -mbmi2 builds.
E3  coordinates up to 2^floor(64/N) as 64-bit LSB-first bit sequences, Hilbert squares up to k = 10 (image of
    the whole square + sampled consecutive positions), large row-major extents: Trace_Layout.
"""
import checks.layout_common as lc
import vf

LEVEL = "model_checking"


def run(ck):
    cases = ck.path("curve-cases.ndjson")
    ck.tlc("LayoutCurve", "MC_LayoutCurve.%s.cfg" % ck.tier, env={"VF_OUT": cases}, timeout=1500)
    ck.bound("morton_bits_per_dim_exhaustive", [8, 4, 2, 2] if ck.quick else [10, 5, 3, 2])
    ck.bound("hilbert_k_exhaustive", 6 if ck.quick else 10)
    ck.cov["exhaustive"] = True
    cs = vf.read_ndjson(cases)
    ck.sample({"case": [c for c in cs if c["kind"] == "morton" and len(c["c"]) == 3][5]})
    fls = lc.flavours_for(ck, quick=("asan", "rel"), thorough=("asan", "rel"))
    specs = [{"name": "h_layout_p0", "sources": "h_layout.cpp", "flavour": fl, "defines": ["VF_LAYOUT_PART=9"]} for fl in fls]
    for sp, b, log in ck.build_many(specs):
        fl = sp["flavour"]
        if not b:
            ck.compile_violation("h_layout/" + fl, log)
            continue
        rc, out, err = ck.run([b, "curve", cases], timeout=900)
        s = ck.harness_output("curve-replay-" + fl, rc, out, err)
        ck.cov["cases_replayed"] += s.get("cases", 0)
        ck.cov["impl_checks"] += s.get("checks", 0)
        if fl == "rel":      # more than 2^32 cells of real (array) storage: 4 GiB, uninstrumented build only
            rc, out, err = ck.run([b, "hugearray"], timeout=600)
            s = ck.harness_output("row-major-4GiB-" + fl, rc, out, err)
            ck.cov["impl_checks"] += s.get("checks", 0)
            ck.bound("largest_real_storage_cells", 65537 * 65536)
        tr = ck.path("trace-%s.ndjson" % fl)
        hk = ("7", "8") if ck.quick else ("7", "10")
        rc, out, err = ck.run([b, "trace", str(ck.seed), "150" if ck.quick else "800", hk[0], hk[1], tr], timeout=900)
        s = ck.harness_output("curve-trace-" + fl, rc, out, err)
        if rc == 0:
            ck.validate_trace("Trace_Layout", "Trace_Layout.cfg", tr, "curve/trace-" + fl, n_traces=1, n_events=s.get("events", 0))
            ck.sample({"trace_event": [l for l in open(tr).read().splitlines() if "hwalk" in l][:1]})
    ck.bound("hilbert_k_traced", 8 if ck.quick else 10)
    # "stores coordinate c at flat position p": the storage block itself, for fields built by conversion in both directions
    lcases = lc.run_layout_mc(ck, sizing_only=True)
    bins = lc.layout_binaries(ck, ["asan"])
    for b in bins.get("asan", []):
        rc, out, err = ck.run([b, "replay", lcases], timeout=1500)
        s = ck.harness_output("storage-position-replay", rc, out, err, only="storage-position")
        ck.cov["cases_replayed"] += s.get("cases", 0)
        ck.cov["impl_checks"] += s.get("checks", 0)
