"""C05 - changing representation preserves the field.

E1  Lifecycle.tla restricted to Construct / Write / Convert over all four layouts (3 slots): Refines, ConfigKept,
    RoundTrip (two fields with the same model agree on every coordinate, whatever their layouts - so converting
    back reproduces the original), SourceUnchanged, NoLeak for every extent vector of the configuration, N in 1..4.
E2  (a) LifecycleGen behaviours (one per transition) replayed on real fields: every conversion chain
        strided/morton/morton_portable/hilbert -> ... with configuration, storage size and all values compared after
        every step;
    (b) h_convert: every ordered pair of layouts x N in 1..4 on the TLC-enumerated extent vectors of LayoutWR, there
        and back, float and double storage, plus whole-stack conversions affine<I1<L1<array>>> -> affine<I2<L2<array>>>
        for I in {nearest, linear} comparing the configuration of every layer and every lattice value, source re-read.
E3  random extents beyond the bound (h_convert trace) validated by Trace_Convert.
"""
import checks.lifecycle_common as lc
import checks.layout_common as lay
LEVEL = "model_checking"


def run(ck):
    if ck.quick:
        f, n = lc.gen(ck, "Gen_Lifecycle.convq.cfg", "conv", timeout=900)     # checks the invariants too (single run)
    else:
        ck.tlc("Lifecycle", "MC_Lifecycle.conv.cfg", timeout=2400)
        f, n = lc.gen(ck, "Gen_Lifecycle.conv.cfg", "conv", timeout=2400)
    lc.sample_history(ck, f, pick=777)
    lc.replay(ck, [f], ["asan"] if ck.quick else ["asan", "rel"], sample=1 if not ck.quick else 1)
    # (b) all ordered pairs on the LayoutWR extent vectors
    cases = lay.run_layout_mc(ck, sizing_only=True)
    fls = lay.flavours_for(ck, quick=("asan",), thorough=("asan", "rel"))
    specs = [{"name": "h_convert_n%d" % n_, "sources": "h_convert.cpp", "flavour": fl, "defines": ["VF_N=%d" % n_]} for fl in fls for n_ in (1, 2, 3, 4)]
    cmds, tags = [], []
    for sp, b, log in ck.build_many(specs):
        if not b:
            ck.compile_violation("h_convert/%s/%s" % (sp["flavour"], sp["defines"][0]), log)
            continue
        cmds.append([b, "replay", cases]); tags.append(("replay", sp))
        if sp["flavour"] in ("asan", "bmi2"):
            cmds.append([b, "trace", str(ck.seed), "12" if ck.quick else "80", ck.path("ctrace-%s-%s.ndjson" % (sp["flavour"], sp["name"]))]); tags.append(("trace", sp))
    for (kind, sp), (rc, out, err), cmd in zip(tags, ck.run_many(cmds, timeout=1500), cmds):
        s = ck.harness_output("convert-%s-%s" % (kind, sp["flavour"]), rc, out, err)
        if kind == "replay":
            ck.cov["cases_replayed"] += s.get("cases", 0)
            ck.cov["impl_checks"] += s.get("checks", 0)
        elif rc == 0:
            ck.validate_trace("Trace_Convert", "Trace_Convert.cfg", cmd[-1], "convert/trace-%s-%s" % (sp["flavour"], sp["name"]), n_traces=1, n_events=s.get("events", 0))
    # (c) host array -> CUDA device array storage -> host, on a host shim of the CUDA runtime (reduced assurance)
    import os, vf
    inc = ["-I" + os.path.join(vf.HARNESS, "cuda_shim"), "-I" + os.path.join(vf.REPO, "lib/cuda")]
    b = ck.build("h_cuda", "h_cuda.cpp", "asan", extra_flags=inc)
    if not b:
        ck.compile_violation("h_cuda/asan (cuda_device_array against the host shim)", ck.last_build_log)
    else:
        rc, out, err = ck.run([b, cases], timeout=900)
        s = ck.harness_output("cuda-shim-replay", rc, out, err)
        ck.cov["cuda_shim_cases"] = s.get("cases", 0)
        ck.cov["impl_checks"] += s.get("checks", 0)
    ck.assume("CUDA: cuda_device_array is compiled and executed against a host shim of the runtime (malloc/memcpy/free); nothing is claimed about real devices")
