"""C06 - dumping a field and loading it back reproduces it exactly.

E1  BinFormatMC.tla: RoundTripLaw (Parse(T, Ser(x)) = x and Ser(Parse(..)) = Ser(x)) and GrammarLaw for every catalogue
    type (20 stacks covering every serialisable layer, depth 1..5) x value sets containing signed zeros, subnormals,
    infinities, quiet and signalling NaN payloads.
E2  TLC emits every instance with the limb stream the specification prescribes; the real field is built, dumped and
    compared BYTE FOR BYTE with that stream (the specification is the independent definition of the format), loaded,
    every layer's configuration and every stored bit pattern compared (memcpy, not ==), dumped again.
E3  random bit patterns on the catalogue's shapes dumped by the real library; TLC parses the bytes independently
    (Trace_Golden!TDump) and compares with what was stored and with what the real loader read back.
"""
import checks.io_common as io
import vf
LEVEL = "model_checking"


def run(ck):
    cases = io.run_format_mc(ck)
    cs = vf.read_ndjson(cases)
    x = [c for c in cs if c["kind"] == "instance" and c["tid"] == 11][0]
    ck.sample({"instance": {"type": 11, "layers": x["layers"], "stream_head": x["stream"][:24]}})
    bins = io.build_io(ck, ["asan", "rel"])
    io.roundtrip(ck, bins, cases, only="io/")
    for fl, b in bins.items():
        tr = ck.path("random-%s.ndjson" % fl)
        rc, out, err = ck.run([b, "random", cases, str(ck.seed), "150" if ck.quick else "1500", tr], timeout=900)
        s = ck.harness_output("io-random-" + fl, rc, out, err)
        if rc == 0:
            ck.validate_trace("Trace_Golden", "Trace_Golden.cfg", tr, "io/random-dumps-" + fl, n_traces=s.get("events", 0), n_events=s.get("events", 0))
    # huge fields (10^5..10^6 vectors, beyond any block or buffer size) through real files: every scalar compared by the
    # harness (same precision bit-exact, other precision against the format's conversion, re-dump byte-identical); the stream's
    # structure and sampled scalars at block boundaries judged by Trace_Golden!THuge
    for fl, b in bins.items():
        tr = ck.path("huge-%s.ndjson" % fl)
        rc, out, err = ck.run([b, "huge", str(ck.seed), tr] + ([] if ck.quick else ["thorough"]), timeout=1500)
        s = ck.harness_output("io-huge-" + fl, rc, out, err)
        ck.cov["impl_checks"] += s.get("checks", 0)
        if rc == 0:
            ck.validate_trace("Trace_Golden", "Trace_Golden.cfg", tr, "io/huge-" + fl, n_traces=s.get("events", 0), n_events=s.get("events", 0))
    ck.bound("largest_field_vectors", 2 ** 20 + 3 if ck.quick else 2 ** 21 + 1)
    ck.assume("extents in the TLC-enumerated catalogue are 1..3 per axis; larger fields are covered by the random (<= 2500 cells) and huge (<= 2^21 vectors) instances")
