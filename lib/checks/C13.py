"""C13 - every well-kinded composition supports the whole field API; ill-kinded ones are rejected.

The oracle is Stack!WellKinded (the library's kind system written down once from its static_asserts and typedefs);
StackMC enumerates well-kinded stacks (pairwise layer-adjacency cover + seeded depth <= 5) and the ill-kinded catalogue
(one stack per stated rule).  For each well-kinded stack a generated translation unit asserts the field_backend concept
and trivially copyable views and odr-uses parameter-pack construction (make_parameter_pack and
make_parameter_pack_for), default construction, views, both lookup forms, copy/move construction and assignment,
get_configuration / get_backend chains on owning and non-owning data, conversion from a compatible stack, dump and
stream construction; it must compile and run clean under ASan/UBSan.  Each ill-kinded stack must be REJECTED by g++.
Level: exploration of the program space driven by the specification's enumeration.
"""
import checks.stack_common as sc
LEVEL = "exploration"


def run(ck):
    st, ill = sc.run_stack_mc(ck)
    ck.sample({"well_kinded_stack": [l["k"] for l in st[len(st) // 2]["layers"]], "ill_kinded": {"rule": ill[0]["rule"], "stack": [l["k"] for l in ill[0]["layers"]]}})
    sc.run_stacks(ck, st, only="c13", second_flavour="rel")      # assertion-enabled sanitised build AND the NDEBUG build
    sc.run_ill(ck, ill)
    ck.cov["evaluations"] = len(st) + len(ill)
    ck.cov["distinct_nontrivial"] = len({json_key(c) for c in st if len(c["layers"]) >= 2})
    ck.cov["rule"] = ("stacks are enumerated by TLC from the layer grammar of spec/StackMC.tla (one per grammar-adjacent pair of layer kinds with N and M "
                      "rotating, plus seeded samples up to depth 5, plus helper chains to depth 10); distinct = distinct layer descriptors; non-trivial = "
                      "at least one transformer over a primitive; each is compiled and executed through the whole field API")
    ck.assume("pairwise layer-adjacency coverage in the quick tier (every second pair), all pairs + 150 seeded stacks in the thorough tier")
    # the CUDA device-array backend against the host shim: concept, conversion, copy/move/assign, dump/load must compile and run
    import os, vf
    import checks.layout_common as lay
    inc = ["-I" + os.path.join(vf.HARNESS, "cuda_shim"), "-I" + os.path.join(vf.REPO, "lib/cuda")]
    b = ck.build("h_cuda", "h_cuda.cpp", "asan", extra_flags=inc)
    if not b:
        ck.compile_violation("strided/cuda_device_array (host shim of the CUDA runtime)", ck.last_build_log)
    else:
        lcases = lay.run_layout_mc(ck, sizing_only=True)
        rc, out, err = ck.run([b, lcases], timeout=900)
        s = ck.harness_output("cuda-shim-api", rc, out, err)
        ck.cov["impl_checks"] += s.get("checks", 0)
    ck.assume("cuda_device_array is compiled against a host shim of the CUDA runtime; cuda_texture (texture objects) is not compiled")


def json_key(c):
    import json
    return json.dumps(c["layers"], sort_keys=True)
